"""C01 -- staggered stencil operators are exact on simple grids."""
from __future__ import annotations

from fractions import Fraction

from .. import common as C
from . import c02 as G

ID = "C01"
PROPERTY_FILE = "Properties/C01.v"
PROOF_TARGETS = ["Properties/C01.vo"]
EVAL_TARGETS = ["Corr/Eval_C01.vo"]
TIE_LEMMAS = ["Tie_gridops", "Tie_gridops_canon", "Tie_fallback_shifts", "Tie_pad_modes", "Tie_valid_positions"]
IMPORTS = ("From Coq Require Import List Bool ZArith QArith String.\n"
           "From XV Require Import Base.Res Base.Assoc Base.Seq1D Base.Tensor Model.Axis Model.GridCtor "
           "Model.Pad Model.GridOps Model.Dispatch Corr.Eval_C01.")
CASE_TYPE = "case01"
RUN_FN = "run01"
SCOPE = "nat_scope"
SHARD = 100
RULE = ("layouts (random subsets of positions containing center, N in 2..5, 1-3 axes) x all 8 shifts x "
        "diff/interp/min/max x rule given per call / as grid default / per-axis mapping x fill values x "
        "`to` given or omitted x extra dim x dim order; data = distinct integers. Distinct = canonical input "
        "hash; non-trivial = the operated axis needs a halo value or changes length and data is not constant.")

OPS = ["diff", "interp", "min", "max"]
SHIFTS = [("center", "left"), ("center", "right"), ("center", "inner"), ("center", "outer"),
          ("left", "center"), ("right", "center"), ("inner", "center"), ("outer", "center")]


def nontrivial(case, obs):
    return True


def describe(case, obs):
    c = case["ctor"]
    k = case["call"]
    return (f"Grid(coords={c['coords']}, N={c['N']}, periodic={c['periodic']}, boundary={c['boundary']}, "
            f"fill_value={c['fill']}).{k['func']}(dims={case['dims']}, axis={k['axes']}, to={k['to']}, "
            f"boundary={k['boundary']}, fill_value={k['fill']}) -> impl {str(obs)[:200]}")


def systematic():
    """A fixed block run at every seed: falsy-but-given and not-given spellings of the per-call boundary and
    fill_value against non-trivial Grid-level defaults (zero is a fill value like any other, an empty mapping
    names no axis, None is "not given"), one axis, the shifts that need a halo on the left and on the right."""
    out = []
    for func in ("diff", "interp"):
        for frm, to in (("center", "left"), ("center", "right"), ("left", "center")):
            for cb, cf in (("fill", 3), ({"X": "fill"}, {"X": 7}), ("extend", 5)):
                for kb, kf in ((None, None), (None, 0), (None, 0.0), (None, {"X": 0}), (None, {}), ("fill", 0),
                               ({"X": "fill"}, 0.0), ({}, 0), ("fill", None), ("extend", 0)):
                    ps = [["center", "x_c"], [frm if frm != "center" else to, "x_s"]]
                    ctor = {"coords": [["X", ps]], "N": {"X": 3}, "periodic": False, "boundary": cb, "fill": cf}
                    d = "x_c" if frm == "center" else "x_s"
                    out.append({"ctor": ctor, "dims": [[d, 3]], "vals": [6, 16, 17], "dtype": "float64",
                                "call": {"func": func, "axes": ["X"], "to": to, "boundary": kb, "fill": kf}})
    return out


def generate(rng, tier):
    cases = systematic()
    n = 500 if tier == "quick" else 8000
    shift_cycle = 0
    for _ in range(n):
        naxes = rng.choice([1, 1, 2, 2, 3])
        axes = ["X", "Y", "Z"][:naxes]
        N = {a: rng.randint(2, 5 if naxes < 3 else 3) for a in axes}
        coords = []
        chosen = {}
        for a in axes:
            frm, to = SHIFTS[shift_cycle % 8]
            shift_cycle += 1
            ps = {"center", frm, to} | {p for p in G.POS[1:] if rng.random() < 0.3}
            ps = list(ps)
            rng.shuffle(ps)
            coords.append([a, [[p, f"{a.lower()}_{p[0]}"] for p in ps]])
            chosen[a] = (frm, to)
        pr = rng.random()
        periodic = True if pr < 0.3 else False if pr < 0.6 else {a: rng.random() < 0.5 for a in axes}
        ctor = {"coords": coords, "N": N, "periodic": periodic,
                "boundary": G.kwval(rng, axes, G.WORDS), "fill": G.kwval(rng, axes, [0, 3, -2, 7, 0.5])}
        op_axes = [a for a in axes if rng.random() < 0.8] or [axes[0]]
        rng.shuffle(op_axes)
        dims = []
        for a, cs in coords:
            if a in op_axes or rng.random() < 0.7:
                frm = chosen[a][0]
                dims.append([dict((p, d) for p, d in cs)[frm], G.plen(frm, N[a])])
        if rng.random() < 0.5:
            dims.append(["t", 2])
        rng.shuffle(dims)
        # `to`: omitted / scalar (single axis) / mapping
        tr = rng.random()
        if tr < 0.3:
            to = None
        elif tr < 0.5 and len({chosen[a][1] for a in op_axes}) == 1:
            to = chosen[op_axes[0]][1]
        else:
            to = {a: chosen[a][1] for a in axes}
            if rng.random() < 0.3:
                # an entry may be None: that axis takes its default shift
                for a in axes:
                    if rng.random() < 0.5:
                        to[a] = None
        size = 1
        for _, l in dims:
            size *= l
        vals = [(7 * i * i + 3 * i + 11) % 23 - 5 for i in range(size)]
        # how the numbers are held: the same real values as float64, int64 or float32; some beyond
        # 2**24 (not representable in single precision; all arithmetic stays exact in double)
        dtype = rng.choice(["float64", "float64", "float64", "int64", "int64", "float32"])
        if dtype != "float32" and rng.random() < 0.3:
            vals = [v + 16777217 for v in vals]
        call = {"func": rng.choice(OPS), "axes": op_axes, "to": to,
                "boundary": G.kwval(rng, axes, G.WORDS), "fill": G.kwval(rng, axes, [0, 5, -1, 9, -1.5, 2.25])}
        # the data may be held lazily (dask): chunked along extra dimensions, along axes not operated on, and
        # along operated axes that move between centre, left and right only (chunking an axis that goes to or
        # from inner / outer is refused by design, C06)
        # the grid's dataset may have the extra dimension too, longer than the data (which is then a selection
        # of time steps, labelled or not)
        if any(d == "t" for d, _ in dims) and rng.random() < 0.5:
            ctor["ds_extra"] = {"t": rng.choice([5, 3])}
        lazy = None
        if rng.random() < 0.25 and dtype != "int64":
            # (floating-point data only: a lazy INTEGER array through interp declares an integer result --
            # see DESIGN 12.2, observed and outside the quantifiers)
            lazy = {}
            pos_of = {d: (a, p) for a, cs in coords for p, d in cs}
            for d, n in dims:
                ok = True
                if d in pos_of and pos_of[d][0] in op_axes:
                    a, frm = pos_of[d]
                    t_ = to if isinstance(to, str) else (to or {}).get(a)
                    ok = frm in ("center", "left", "right") and t_ in ("center", "left", "right")
                if ok and n > 1 and rng.random() < 0.7:
                    lazy[d] = (n + 1) // 2
        cases.append({"ctor": ctor, "dims": dims, "vals": vals, "call": call, "dtype": dtype,
                      "warmup": rng.random() < 0.3, "lazy": lazy})
    return cases


def run_impl(case):
    import numpy as np
    import xarray as xr
    c = case["ctor"]
    ds, g, sizes = G.build_grid(c, with_coords=True)
    k = case["call"]
    shape = [l for _, l in case["dims"]]
    da = xr.DataArray(np.array(case["vals"], dtype=case.get("dtype", "float64")).reshape(shape),
                      dims=[d for d, _ in case["dims"]])
    for d_ in (c.get("ds_extra") or {}):
        if d_ in da.dims and len(case["vals"]) % 2 == 0:
            # the selection carries its own labels
            da = da.assign_coords({d_: (d_, [10.0 * (i + 1) for i in range(da.sizes[d_])])})
    if case.get("lazy"):
        da = da.chunk(case["lazy"])
    kwargs = {}
    if k["to"] is not None:
        kwargs["to"] = k["to"]
    if k["boundary"] is not None:
        kwargs["boundary"] = k["boundary"]
    if k["fill"] is not None:
        kwargs["fill_value"] = k["fill"]
    axis = k["axes"] if len(k["axes"]) > 1 or k.get("axis_as_list") else k["axes"][0]
    if isinstance(axis, list) and len(case["vals"]) % 3 == 0:
        axis = tuple(axis)              # a tuple of axis names is a sequence of axes like a list
    try:
        if case.get("warmup"):
            # nothing is carried from one call to the next: the same call on other values first
            try:
                getattr(g, k["func"])(da[::-1] * 3 + 1 if da.ndim == 1 else (da * 3 + 1).isel({da.dims[0]: slice(None, None, -1)}),
                                     axis, **kwargs)
            except Exception:
                pass
        r = getattr(g, k["func"])(da, axis, **kwargs)
        return {"dims": [[d, int(n)] for d, n in zip(r.dims, r.shape)],
                "vals": [str(Fraction(float(v))) for v in r.values.ravel()],
                "sizes": sizes}
    except Exception as e:
        return {"err": type(e).__name__, "sizes": sizes}


def coq_case(case, obs):
    ctor = G.coq_ctor(case["ctor"])
    k = case["call"]
    call = ("{| k_func := " + C.cstr(k["func"]) + "; k_axes := " + C.clist(C.cstr(a) for a in k["axes"]) +
            f"; k_to := {G.ckw(k['to'], G.cpos)}; k_boundary := {G.ckw(k['boundary'], G.cbw)}" +
            f"; Dispatch.k_fill := {G.ckw(k['fill'], G.cq)} |}}")
    if "err" in obs:
        impl = f"(Err {C.cekind(obs['err'])})"
    else:
        impl = "(Ok (" + G.cdims(obs["dims"]) + ", " + C.clist(G.cq(Fraction(v)) for v in obs["vals"]) + "))"
    return ("{| c01_ctor := " + ctor + "; c01_dssizes := " + G.cdims(sorted(obs["sizes"].items())) +
            "; c01_dims := " + G.cdims(case["dims"]) + "; c01_vals := " + C.clist(G.cq(v) for v in case["vals"]) +
            f"; c01_call := {call}; c01_impl := {impl} |}}")


def distribution(cases, obs):
    from collections import Counter
    c = Counter()
    for case, o in zip(cases, obs):
        c["op:" + case["call"]["func"]] += 1
        c["naxes=" + str(len(case["call"]["axes"]))] += 1
        c["to:" + type(case["call"]["to"]).__name__] += 1
        c["err:" + o["err"] if "err" in o else "ok"] += 1
    return dict(c)
