"""C18 -- operations never modify their arguments; results are history-independent."""
from __future__ import annotations

from .. import common as C

ID = "C18"
PROPERTY_FILE = "Properties/C18.v"
PROOF_TARGETS = ["Properties/C18.vo", "Proofs/Tie_heap.vo"]
EVAL_TARGETS = ["Corr/Eval_C18.vo"]
TIE_LEMMAS = ["Tie_heap_available", "Tie_heap_confined"]
IMPORTS = ("From Coq Require Import List Bool String.\n"
           "From XV Require Import Corr.Eval_C18.")
CASE_TYPE = "case18"
RUN_FN = "run18"
SCOPE = "nat_scope"
SHARD = 400
RULE = ("sequences of 1-3 calls on ONE Grid re-using the SAME argument objects (arrays with coordinates, attrs and "
        "name; vector and other_component dictionaries; boundary / fill_value / to / boundary_width / "
        "metric_weighted containers; the dataset), drawn from diff, interp, min, max, cumsum (1-2 axes, scalar and "
        "vector, simple and face-connected grids), derivative, integrate, average, cumint, get_metric, interp_like, "
        "pad, apply_as_grid_ufunc, transform (linear and conservative, anonymous target_data), Grid construction, "
        "and calls that raise (unknown boundary word, missing axis). A deep snapshot (values, dims, coordinates, "
        "attrs, names, dictionary keys and the identity of their values, every Axis setting, the metric registry, "
        "the dataset) is taken before and after every call; every result is compared with the same call made first "
        "on freshly built objects. Non-trivial = a sequence of at least two calls or a call that raises.")

GRIDS = ["simple", "faces", "vertical", "comodo"]


def nontrivial(case, obs):
    return len(case["ops"]) > 1 or any(o.get("raised") for o in obs.get("calls", []))


def describe(case, obs):
    return f"grid={case['grid']} ops={case['ops']} -> {str(obs)[:600]}"


OPS = {
    "simple": ["diff_x", "interp_xy", "min_x", "max_y", "cumsum_x", "cumsum_xy", "derivative_x", "integrate_xy",
               "average_x", "cumint_x", "get_metric", "interp_like", "pad", "ufunc", "interp_mw", "ctor",
               "bad_boundary", "bad_axis", "diff_outer", "min_outer", "max_outer", "interp_outer", "cumsum_outer",
               "min_inner", "interp_inner", "integrate_left", "average_u", "get_metric_left", "integrate_u"],
    "faces": ["vec_interp_x", "vec_diff_xy", "vec_pad", "scalar_diff_x", "scalar_interp_xy", "ctor_faces",
              "bad_boundary"],
    "vertical": ["transform_linear", "transform_cons", "transform_anon", "transform_arr", "diff_z"],
    "comodo": ["autoparse", "autoparse_diff", "autoparse_interp"],
}


def generate(rng, tier):
    n = 260 if tier == "quick" else 2500
    cases = []
    for i in range(n):
        g = GRIDS[i % 4]
        k = rng.choice([1, 2, 2, 3, 3])
        cases.append({"grid": g, "ops": [rng.choice(OPS[g]) for _ in range(k)], "periodic": rng.random() < 0.5})
    # every operation at least once after itself (the commonest way a consumed argument shows up)
    for g in GRIDS:
        for op in OPS[g]:
            cases.append({"grid": g, "ops": [op, op], "periodic": False})
    return cases


# ---------------------------------------------------------------------------------------
def snap(o, depth=0):
    import numpy as np
    import xarray as xr
    if depth > 6:
        return "..."
    if isinstance(o, xr.DataArray):
        return ("DataArray", tuple(map(str, o.dims)), tuple(o.shape), np.asarray(o.values).tobytes(), o.name,
                sorted((str(k), repr(v)) for k, v in o.attrs.items()),
                sorted((str(k), tuple(map(str, v.dims)), np.asarray(v.values).tobytes(),
                        sorted((str(a), repr(b)) for a, b in v.attrs.items())) for k, v in o.coords.items()))
    if isinstance(o, xr.Dataset):
        return ("Dataset", sorted((str(k), snap(o[k], depth + 1)) for k in o.variables),
                sorted((str(k), repr(v)) for k, v in o.attrs.items()))
    if isinstance(o, np.ndarray):
        return ("ndarray", o.shape, o.tobytes())
    if isinstance(o, dict):
        return ("dict", [(repr(k), snap(v, depth + 1), id(v)) for k, v in o.items()])
    if isinstance(o, (list, tuple)):
        return (type(o).__name__, [snap(v, depth + 1) for v in o])
    return repr(o)


def snap_grid(g):
    out = []
    for name, ax in g.axes.items():
        out.append((name, sorted(ax.coords.items()), ax.boundary, repr(ax.fill_value), sorted(ax._default_shifts.items()),
                    repr(getattr(ax, "_periodic", None)), repr(getattr(ax, "_facedim", None)),
                    repr(getattr(ax, "_face_connections", None))))
    mets = [(repr(k), [snap(m) for m in v]) for k, v in sorted(g._metrics.items(), key=lambda kv: repr(kv[0]))]
    return (out, mets, snap(g._ds), repr(getattr(g, "_face_connections", None)))


def world(case):
    """the grid and one set of argument objects"""
    import numpy as np
    import xarray as xr
    from xgcm import Grid
    kind = case["grid"]
    W = {}
    if kind == "simple":
        ds = xr.Dataset(coords={"xc": ("xc", np.arange(4.) + .5, {"units": "m"}), "xl": ("xl", np.arange(4.)),
                                "xo": ("xo", np.arange(5.)), "yc": ("yc", np.arange(3.) + .5),
                                "yl": ("yl", np.arange(3.)), "yi": ("yi", np.arange(2.) + 1), "t": ("t", [0., 1.])},
                        attrs={"title": "w"})
        ds["dx"] = ("xc", np.array([1., 2., 1., 2.]))
        ds["dxl"] = ("xl", np.array([2., 1., 2., 1.]))
        ds["dy"] = ("yc", np.array([1., 3., 1.]))
        ds["area"] = (("yc", "xc"), np.outer([1., 3., 1.], [1., 2., 1., 2.]))
        W["coords"] = {"X": {"center": "xc", "left": "xl", "outer": "xo"}, "Y": {"center": "yc", "left": "yl", "inner": "yi"}}
        W["ctor_boundary"] = {"X": "fill"} if not case["periodic"] else {"X": "periodic", "Y": "extend"}
        W["ctor_fill"] = {"X": 2.0}
        # half of the worlds have no metric for the pair of axes and none at the left positions, so that
        # products and interpolated metrics are used
        W["metrics"] = {("X",): ["dx"], ("Y",): ["dy"]} if case["periodic"] else \
            {("X",): ["dx", "dxl"], ("Y",): ["dy"], ("X", "Y"): ["area"]}
        W["ds"] = ds
        g = Grid(ds, coords=W["coords"], periodic=case["periodic"], boundary=W["ctor_boundary"],
                 fill_value=W["ctor_fill"], metrics=W["metrics"], autoparse_metadata=False)
        da = xr.DataArray(np.arange(24.).reshape(2, 3, 4) ** 1.5, dims=["t", "yc", "xc"], name="temp",
                          attrs={"long_name": "T"}).assign_coords(xc=ds.xc, yc=ds.yc, t=ds.t)
        W["da"] = da
        W["dal"] = xr.DataArray((np.arange(12.).reshape(3, 4) * 3) % 7 + 1, dims=["yl", "xl"], name="vort")
        W["dau"] = xr.DataArray((np.arange(12.).reshape(3, 4) * 5) % 11 + 1, dims=["yc", "xl"], name="u")
        W["dao"] = xr.DataArray(np.arange(15.).reshape(3, 5) ** 1.1, dims=["yc", "xo"], name="flux")
        W["dai"] = xr.DataArray((np.arange(12.).reshape(3, 4) * 7) % 5, dims=["yc", "xc"], name="w")
        # half of the worlds use mappings that do not name every axis (the Grid's defaults fill in)
        W["boundary"] = {"X": "extend"} if case["periodic"] else {"X": "extend", "Y": "fill"}
        W["fill"] = {"Y": -1.0} if case["periodic"] else {"X": 1.5, "Y": -1.0}
        # ... and a `to` mapping that leaves an axis to its default shift (None)
        W["to"] = {"X": None, "Y": "left"} if case["periodic"] else {"X": "left", "Y": "left"}
        W["bw"] = {"X": (1, 2), "Y": (0, 1)}
        W["mw"] = ("X", "Y")
        W["axes"] = ["X", "Y"]
        W["ufunc_bw"] = {"X": (1, 0)}
        W["ufunc_axis"] = [("X",)]
    elif kind == "faces":
        ds = xr.Dataset(coords={"face": [0, 1], "x": np.arange(3.), "xl": np.arange(3.) - .5, "y": np.arange(3.),
                                "yl": np.arange(3.) - .5})
        W["fc"] = {"face": {0: {"X": (None, (1, "X", False))}, 1: {"X": ((0, "X", False), None)}}}
        W["coords"] = {"X": {"center": "x", "left": "xl"}, "Y": {"center": "y", "left": "yl"}}
        W["ds"] = ds
        g = Grid(ds, coords=W["coords"], face_connections=W["fc"], periodic=False, autoparse_metadata=False)
        u = xr.DataArray(np.arange(18.).reshape(2, 3, 3) + 1, dims=["face", "y", "xl"], name="u")
        v = xr.DataArray(np.arange(18.).reshape(2, 3, 3) * 2 + 1, dims=["face", "yl", "x"], name="v")
        W["vec"] = {"X": u}
        W["oc"] = {"Y": v}
        W["da"] = xr.DataArray(np.arange(18.).reshape(2, 3, 3) ** 1.2, dims=["face", "y", "x"], name="s")
        W["boundary"] = {"X": "extend", "Y": "fill"}
        W["fill"] = {"X": 0.5, "Y": 2.0}
        W["bw"] = {"X": (1, 1), "Y": (1, 0)}
        W["axes"] = ["X", "Y"]
    elif kind == "comodo":
        # metadata with the shift spelled as text / integer-like values, as written by some tools
        shift = rng_choice(case, ["-0.5", -0.5, np.float32(-0.5)])
        ds = xr.Dataset(coords={"xc": ("xc", np.arange(4.) + .5, {"axis": "X"}),
                                "xg": ("xg", np.arange(4.), {"axis": "X", "c_grid_axis_shift": shift}),
                                "yc": ("yc", np.arange(3.) + .5, {"axis": "Y"}),
                                "yg": ("yg", np.arange(3.), {"axis": "Y", "c_grid_axis_shift": shift})},
                        attrs={"title": "c"})
        W["ds"] = ds
        # the world's own Grid is parsed from a copy: the shared dataset is first read by the calls
        g = Grid(ds.copy(deep=True), periodic=False)
        W["da"] = xr.DataArray(np.arange(12.).reshape(3, 4) ** 1.5, dims=["yc", "xc"], name="temp")
    else:
        ds = xr.Dataset(coords={"zc": ("zc", np.arange(4.) + .5), "zo": ("zo", np.arange(5.)), "x": ("x", [0., 1.])})
        W["coords"] = {"Z": {"center": "zc", "outer": "zo"}}
        W["ds"] = ds
        g = Grid(ds, coords=W["coords"], periodic=False, autoparse_metadata=False)
        W["da"] = xr.DataArray(np.arange(8.).reshape(2, 4) + 1, dims=["x", "zc"], name="q").assign_coords(zc=ds.zc)
        W["td"] = xr.DataArray(np.array([[1., 2, 4, 7], [2., 3, 5, 9]]), dims=["x", "zc"], name="dens")
        W["td_anon"] = xr.DataArray(np.array([[1., 2, 4, 7], [2., 3, 5, 9]]), dims=["x", "zc"])
        W["levels"] = np.array([1.5, 3.0, 6.0])
        W["bins"] = np.array([1.0, 3.0, 9.0])
        W["target_arr"] = xr.DataArray(np.array([1.5, 3.0]), dims=["lev"], coords={"lev": [1.5, 3.0]})
    W["grid"] = g
    return W


def rng_choice(case, options):
    return options[sum(map(ord, "".join(case["ops"]))) % len(options)]


def xr_identity(g, da):
    return da * 1.0


def call(op, W):
    import numpy as np
    from xgcm import Grid
    from xgcm.padding import pad
    from xgcm.grid_ufunc import apply_as_grid_ufunc
    g = W["grid"]
    b, f = W.get("boundary"), W.get("fill")
    if op == "diff_x":
        return g.diff(W["da"], "X", boundary=b, fill_value=f, to=W["to"])
    if op == "interp_xy":
        return g.interp(W["da"], W["axes"], boundary=b, fill_value=f, to=W["to"])
    if op == "min_x":
        return g.min(W["da"], "X", boundary=b)
    if op == "max_y":
        return g.max(W["da"], "Y", fill_value=f)
    if op == "cumsum_x":
        return g.cumsum(W["da"], "X", boundary=b, fill_value=f, to=W["to"])
    if op == "cumsum_xy":
        return g.cumsum(W["da"], W["axes"], boundary=b, fill_value=f)
    if op == "derivative_x":
        return g.derivative(W["da"], "X", boundary=b)
    if op == "integrate_xy":
        return g.integrate(W["da"], W["axes"])
    if op == "average_x":
        return g.average(W["da"], "X")
    if op == "cumint_x":
        return g.cumint(W["da"], "X", boundary=b, fill_value=f)
    if op == "get_metric":
        return g.get_metric(W["da"], W["mw"])
    if op == "interp_like":
        return g.interp_like(W["ds"]["dxl"], W["da"], boundary=b, fill_value=f)
    if op == "pad":
        return pad(W["da"], g, boundary_width=W["bw"], boundary=b, fill_value=f)
    if op == "ufunc":
        return apply_as_grid_ufunc(lambda a: a[..., 1:] - a[..., :-1], W["da"], axis=W["ufunc_axis"], grid=g,
                                   signature="(X:center)->(X:left)", boundary_width=W["ufunc_bw"], boundary=b,
                                   fill_value=f)
    if op == "interp_mw":
        return g.interp(W["da"], W["axes"], metric_weighted=W["mw"], boundary=b)
    if op == "ctor":
        g2 = Grid(W["ds"], coords=W["coords"], boundary=W["ctor_boundary"], fill_value=W["ctor_fill"],
                  metrics=W["metrics"], periodic=False, autoparse_metadata=False)
        return g2.diff(W["da"], "X")
    if op == "bad_boundary":
        return g.diff(W["da"], "X", boundary={"X": "reflect"}, fill_value=f)
    if op == "bad_axis":
        return g.interp(W["da"], ["X", "Q"], boundary=b)
    # metric queries at positions where nothing (or not everything) is registered
    if op == "integrate_left":
        return g.integrate(W["dal"], W["axes"])
    if op == "integrate_u":
        return g.integrate(W["dau"], W["axes"])
    if op == "average_u":
        return g.average(W["dau"], ["Y", "X"])
    if op == "get_metric_left":
        return g.get_metric(W["dal"], W["mw"])
    if op == "diff_outer":
        return g.diff(W["dao"], "X", boundary=b, fill_value=f)
    # shifts that need no padding: the function is handed the caller's own data
    if op in ("min_outer", "max_outer", "interp_outer", "cumsum_outer"):
        return getattr(g, op.split("_")[0])(W["dao"], "X", to="center")
    if op in ("min_inner", "interp_inner"):
        return getattr(g, op.split("_")[0])(W["dai"], "Y", to="inner")
    if op == "vec_interp_x":
        return g.interp(W["vec"], "X", other_component=W["oc"], boundary=b, fill_value=f)
    if op == "vec_diff_xy":
        return g.diff(W["vec"], W["axes"], other_component=W["oc"], boundary=b)
    if op == "vec_pad":
        return pad(W["vec"], g, boundary_width=W["bw"], boundary=b, fill_value=f, other_component=W["oc"])
    if op == "scalar_diff_x":
        return g.diff(W["da"], "X", boundary=b, fill_value=f)
    if op == "scalar_interp_xy":
        return g.interp(W["da"], W["axes"], boundary=b)
    if op == "ctor_faces":
        g2 = Grid(W["ds"], coords=W["coords"], face_connections=W["fc"], periodic=False, autoparse_metadata=False)
        return g2.interp(W["da"], "X")
    if op == "autoparse":
        g2 = Grid(W["ds"], periodic=False)
        return xr_identity(g2, W["da"])
    if op == "autoparse_diff":
        return Grid(W["ds"], periodic=False).diff(W["da"], "X", boundary="extend")
    if op == "autoparse_interp":
        return g.interp(W["da"], ["X", "Y"], boundary="fill")
    if op == "transform_linear":
        return g.transform(W["da"], "Z", W["levels"], target_data=W["td"])
    if op == "transform_cons":
        return g.transform(W["da"], "Z", W["bins"], target_data=W["td"], method="conservative")
    if op == "transform_anon":
        return g.transform(W["da"], "Z", W["levels"], target_data=W["td_anon"])
    if op == "transform_arr":
        return g.transform(W["da"], "Z", W["target_arr"], target_data=W["td"])
    if op == "diff_z":
        return g.diff(W["da"], "Z", to="outer", boundary="extend")
    raise KeyError(op)


def snap_world(W):
    return {k: (snap_grid(v) if k == "grid" else snap(v)) for k, v in W.items()}


def outcome(op, W):
    import warnings
    import xarray as xr
    try:
        with warnings.catch_warnings():
            warnings.simplefilter("ignore")
            r = call(op, W)
            if isinstance(r, xr.DataArray):
                r = r.compute()
        return {"raised": None, "result": snap(r)}
    except Exception as e:
        return {"raised": type(e).__name__, "result": None}


def run_impl(case):
    shared = world(case)
    calls = []
    for op in case["ops"]:
        before = snap_world(shared)
        got = outcome(op, shared)
        after = snap_world(shared)
        changed = sorted(k for k in before if before[k] != after[k])
        ref = outcome(op, world(case))
        calls.append({"op": op, "raised": got["raised"], "changed": changed,
                      "same_as_fresh": got["raised"] == ref["raised"] and got["result"] == ref["result"],
                      "fresh_raised": ref["raised"]})
    return {"calls": calls}


def coq_case(case, obs):
    calls = obs["calls"]
    return ("{| c18_calls := " + C.clist(
        f"({C.cstr(c['op'])}, {C.cbool(not c['changed'])}, {C.cbool(c['same_as_fresh'])})" for c in calls) + " |}")


def distribution(cases, obs):
    from collections import Counter
    c = Counter()
    for case, o in zip(cases, obs):
        c["grid:" + case["grid"]] += 1
        c[f"len={len(case['ops'])}"] += 1
        for k in o["calls"]:
            c["op:" + k["op"]] += 1
            c["raised:" + str(k["raised"])] += 1
            if k["changed"]:
                c["CHANGED:" + ",".join(k["changed"])] += 1
    return dict(c)
