"""C13 -- axis, dimension and variable names are opaque labels."""
from __future__ import annotations

import copy
from fractions import Fraction

from .. import common as C
from . import c01 as K1
from . import c02 as G
from . import c05 as K5
from . import c08 as K8
from . import c09 as K9
from . import c11 as K11

ID = "C13"
PROPERTY_FILE = "Properties/C13.v"
PROOF_TARGETS = ["Properties/C13.vo", "Proofs/Tie_names.vo"]
EVAL_TARGETS = ["Corr/Eval_C13.vo"]
TIE_LEMMAS = ["Tie_name_sites_available", "Tie_name_sites", "Tie_signature"]
IMPORTS = ("From Coq Require Import List Bool ZArith QArith String PrimFloat.\n"
           "From XV Require Import Base.Res Base.Assoc Base.Ops Base.FloatOps Base.QNOps Base.Seq1D Base.Tensor "
           "Model.Axis Model.GridCtor Model.Pad Model.GridOps Model.Dispatch Model.Cumsum Model.Signature "
           "Model.UFunc Model.Transform Model.FaceConn Model.FacePad Corr.Eval_C01 Corr.Eval_C05 Corr.Eval_C08 "
           "Corr.Eval_C09 Corr.Eval_C11 "
           "Corr.Eval_C13.")
CASE_TYPE = "case13"
RUN_FN = "run13"
SCOPE = "nat_scope"
SHARD = 60
RULE = ("calls from the generators of C01 (diff/interp/min/max), C09 (cumsum), C02 (constructor + pad), C11 (grid "
        "ufuncs, four ways of wrapping) and C08 (Grid.transform), each replayed under a random INJECTIVE renaming "
        "of axis names, dimension names, data/coordinate variable names and dummy names drawn from a pool of "
        "awkward identifiers (single letters t e r c l i o n, names containing or contained in the position words, "
        "prefixes / substrings of each other, upper/lower-case variants, 12-character names, the package's own "
        "temporary names temp_unique / temp_dim_target / xdummy); axis arguments as plain "
        "strings or lists. Plus: signature strings under renaming (printing, re-parsing, equivalence), COMODO "
        "datasets under renaming of dimensions and axis attribute values, integrate / average / metric_weighted (string, tuple, mapping) with renamed metrics. The "
        "renamed outcome must be the renaming of the original outcome (accept/reject, exception class, dims, "
        "values, names); the renamed call is also run through the model of its kind. Non-trivial = always.")

POOL = ["t", "e", "r", "c", "l", "i", "o", "n", "X", "x", "XX", "X_", "Xc", "cX", "center_x", "xcenter", "le",
        "cent", "enter", "inn", "outerY", "rightmost", "leftover", "Center", "LEFT", "Inner", "aaaaaaaaaaaa", "lon",
        "longitude", "lat", "la", "dummy", "xdummy", "ydummy", "temp_unique", "temp_dim_target",
        "face", "axis", "dims", "Z", "z", "zz", "k", "K", "depth", "dept", "epth", "Y", "y",
        "y_c", "x_c", "x_l", "outer_", "_left", "right_x", "s", "rho", "dens", "T", "temp", "q", "lev", "sigma",
        "winner", "router", "x_inner", "uncentered", "lat_", "Lat", "LAT", "eta", "ETA", "Eta"]


def nontrivial(case, obs):
    return True


def describe(case, obs):
    return f"{case['kind']} renaming={case['rho']} orig={str(case['orig'])[:400]} -> {str(obs)[:400]}"


def make_rho(rng, names, avoid=()):
    """an injective renaming of [names]; [avoid]: names the case keeps as they are"""
    names = list(dict.fromkeys(n for n in names if n is not None))
    new = rng.sample([p for p in POOL if p not in avoid], len(names))
    return dict(zip(names, new))


def ren_kw(v, rho):
    return {rho.get(k, k): x for k, x in v.items()} if isinstance(v, dict) else v


def ren_ctor(c, rho):
    out = dict(c)
    out["coords"] = [[rho[a], [[p, rho[d]] for p, d in cs]] for a, cs in c["coords"]]
    out["N"] = {rho[a]: n for a, n in c["N"].items()}
    p = c["periodic"]
    out["periodic"] = [rho[a] for a in p] if isinstance(p, list) else ren_kw(p, rho)
    out["boundary"] = ren_kw(c["boundary"], rho)
    out["fill"] = ren_kw(c["fill"], rho)
    if c.get("ds_extra"):
        out["ds_extra"] = ren_kw(c["ds_extra"], rho)
    return out


def ctor_names(c):
    return [a for a, _ in c["coords"]] + [d for _, cs in c["coords"] for _, d in cs]


def ren_dims(dims, rho):
    return [[rho.get(d, d), n] for d, n in dims]


# ---- per kind: names used, renamed case, runner, comparison -------------------------------
def ren_op(case, rho):
    out = copy.deepcopy(case)
    out["ctor"] = ren_ctor(case["ctor"], rho)
    out["dims"] = ren_dims(case["dims"], rho)
    k = out["call"]
    k["axes"] = [rho[a] for a in k["axes"]]
    for f in ("to", "boundary", "fill"):
        k[f] = ren_kw(k[f], rho)
    if out.get("lazy"):
        out["lazy"] = ren_kw(out["lazy"], rho)
    return out


def ren_pad(case, rho):
    out = copy.deepcopy(case)
    out["ctor"] = ren_ctor(case["ctor"], rho)
    k = out.get("call")
    if k:
        k["dims"] = ren_dims(k["dims"], rho)
        if k["bw"] is not None:
            k["bw"] = [[rho[a], w] for a, w in k["bw"]]
        k["boundary"] = ren_kw(k["boundary"], rho)
        k["fill"] = ren_kw(k["fill"], rho)
    return out


def ren_ufunc(case, rho, rho_dummy=None):
    """rho renames the user's labels (axes, dimensions); the dummy names of the signature are bound
    variables of their own namespace: with rho_dummy they are renamed independently of the axes
    (so a dummy that happens to be spelled like a real axis no longer is)"""
    out = copy.deepcopy(case)
    out["ctor"] = ren_ctor(case["ctor"], rho)
    rd = rho_dummy or rho
    out["in_sig"] = [[[rd[d], p] for d, p in a] for a in case["in_sig"]]
    out["out_sig"] = [[[rd[d], p] for d, p in a] for a in case["out_sig"]]

    def fmt(args):
        return ",".join("(" + ",".join(f"{d}:{p}" for d, p in a) + ")" for a in args)
    out["sig"] = fmt(out["in_sig"]) + "->" + fmt(out["out_sig"])
    out["axis"] = [[rho[a] for a in ax] for ax in case["axis"]]
    for a in out["args"]:
        a["dims"] = ren_dims(a["dims"], rho)
    for o in (out["bound"], out["call"]):
        if o.get("bw"):
            o["bw"] = [[rd[d], w] for d, w in o["bw"]]       # boundary_width is keyed by dummy names
        for f in ("boundary", "fill"):
            if f in o:
                o[f] = ren_kw(o[f], rho)
    return out


def ren_transform(case, rho):
    out = copy.deepcopy(case)
    out["names"] = {k: rho[k] for k in ("zc", "zo", "x", "t", "Z")}
    out["dims"] = ren_dims(case["dims"], rho)
    out["tdims"] = ren_dims(case["tdims"], rho)
    for f in ("da_name", "td_name", "tname", "target_dim"):
        if case.get(f) is not None:
            out[f] = rho[case[f]]
    return out


def ren_faces(case, rho):
    out = copy.deepcopy(case)
    out["ctor"] = ren_ctor(case["ctor"], rho)

    def link(l):
        return None if l is None else [l[0], rho[l[1]], l[2]]
    out["conn"] = [[f, [[rho[a], [link(l), link(r)]] for a, (l, r) in fal]] for f, fal in case["conn"]]
    out["dims"] = ren_dims(case["dims"], rho)
    if case["vector"]:
        out["vector"] = rho[case["vector"]]
        out["partner"] = {"axis": rho[case["partner"]["axis"]], "dims": ren_dims(case["partner"]["dims"], rho),
                          "vals": case["partner"]["vals"]}
    if case["bw"] is not None:
        out["bw"] = [[rho[a], w] for a, w in case["bw"]]
    out["boundary"] = ren_kw(case["boundary"], rho)
    out["fill"] = ren_kw(case["fill"], rho)
    return out


def same_faces(o1, o2, inv):
    if ("err" in o1) != ("err" in o2):
        return False
    if "err" in o1:
        return o1["err"] == o2["err"]
    return canon(o1["dims"], o1["vals"], {}) == canon(o2["dims"], o2["vals"], inv)


def back(d, inv):
    return inv.get(d, d)


def canon(dims, vals, inv):
    """result as {original dim names sorted} -> values in that order"""
    import numpy as np
    names = [back(d, inv) for d, _ in dims]
    shape = [n for _, n in dims]
    if len(set(names)) != len(names):
        return ("dup", names, vals)
    arr = np.array(vals, dtype=object).reshape(shape) if shape else np.array(vals, dtype=object)
    order = sorted(range(len(names)), key=lambda i: names[i])
    arr = arr.transpose(order) if shape else arr
    return (sorted(names), [n for _, n in sorted(zip(names, shape))], list(arr.ravel()))


def same_op(o1, o2, inv):
    if ("err" in o1) != ("err" in o2):
        return False
    if "err" in o1:
        return o1["err"] == o2["err"]
    # the ORDER of the dimensions must be the renamed order too
    return [back(d, inv) for d, _ in o2["dims"]] == [d for d, _ in o1["dims"]] and \
        [n for _, n in o1["dims"]] == [n for _, n in o2["dims"]] and o1["vals"] == o2["vals"]


def same_pad(o1, o2, inv):
    if ("ctor_err" in o1) != ("ctor_err" in o2):
        return False
    if "ctor_err" in o1:
        return o1["ctor_err"] == o2["ctor_err"]
    if [[back(a, inv), b, f] for a, b, f in o2["axes"]] != o1["axes"]:
        return False
    p1, p2 = o1.get("pad"), o2.get("pad")
    if (p1 is None) != (p2 is None):
        return False
    if p1 is None:
        return True
    if ("err" in p1) != ("err" in p2):
        return False
    if "err" in p1:
        return p1["err"] == p2["err"]
    return same_op(p1, p2, inv)


def same_ufunc(o1, o2, inv):
    if ("err" in o1) != ("err" in o2):
        return False
    if o1["recv"] != o2["recv"] or o1["ret"] != o2["ret"]:
        return False
    if "err" in o1:
        return o1["err"] == o2["err"]
    r1, r2 = o1["res"], o2["res"]
    return len(r1) == len(r2) and all(
        [back(d, inv) for d, _ in b[0]] == [d for d, _ in a[0]] and a[1] == b[1] for a, b in zip(r1, r2))


def same_transform(o1, o2, inv, case1, case2):
    if ("err" in o1) != ("err" in o2):
        return False
    if "err" in o1:
        return o1["err"] == o2["err"]
    if canon(o1["dims"], o1["vals"], {}) != canon(o2["dims"], o2["vals"], inv):
        return False
    n1, n2 = o1["name"], o2["name"]
    suffix = "_transformed" if case1["suffix"] is None else case1["suffix"]
    exp = None if n1 is None else back(n2[:len(n2) - len(suffix)] if suffix else n2, inv) + suffix if n2 is not None else "?"
    return back(o2["newdim"], inv) == o1["newdim"] and o1["coord"] == o2["coord"] and \
        ((n1 is None and n2 is None) or (n1 is not None and n2 is not None and exp == n1))


# ---- kinds evaluated at implementation level only ------------------------------------------
def run_other(case):
    import numpy as np
    import xarray as xr
    from xgcm import Grid
    from xgcm.grid_ufunc import _GridUFuncSignature
    o, rho = case["orig"], case["rho"]
    if o["what"] == "signature":
        def fmt(args, m):
            return ",".join("(" + ",".join(f"{m.get(d, d)}:{p}" for d, p in a) + ")" for a in args)
        s1 = fmt(o["in"], {}) + "->" + fmt(o["out"], {})
        s2 = fmt(o["in"], rho) + "->" + fmt(o["out"], rho)
        a, b = _GridUFuncSignature.from_string(s1), _GridUFuncSignature.from_string(s2)
        b2 = _GridUFuncSignature.from_string(str(b))
        flds = lambda x: (x.in_ax_names, x.in_ax_positions, x.out_ax_names, x.out_ax_positions)
        ok = str(b) == s2 and flds(b2) == flds(b) and a.equivalent(b) and b.equivalent(a)
        ok = ok and b.in_ax_positions == a.in_ax_positions and b.out_ax_positions == a.out_ax_positions
        ok = ok and [tuple(rho.get(n, n) for n in arg) for arg in a.in_ax_names] == [tuple(x) for x in b.in_ax_names]
        return {"same": bool(ok), "detail": [s1, s2, str(b)]}
    if o["what"] == "comodo":
        def build(m):
            ds = xr.Dataset()
            for ax, n in o["axes"]:
                c, l = m.get(ax.lower() + "c", ax.lower() + "c"), m.get(ax.lower() + "l", ax.lower() + "l")
                ds[c] = (c, np.arange(n) + 0.5, {"axis": m.get(ax, ax)})
                ds[l] = (l, np.arange(n) * 1.0, {"axis": m.get(ax, ax), "c_grid_axis_shift": -0.5})
            ds[m.get("data", "data")] = ([m.get(a.lower() + "c", a.lower() + "c") for a, _ in o["axes"]],
                                          np.arange(int(np.prod([n for _, n in o["axes"]])), dtype=float).reshape(
                                              [n for _, n in o["axes"]]) ** 1.3)
            g = Grid(ds, periodic=False)
            axes = {a: dict(g.axes[a].coords) for a in g.axes}
            first = m.get(o["axes"][0][0], o["axes"][0][0])
            r = g.diff(ds[m.get("data", "data")], first, boundary="extend")
            return axes, list(r.dims), r.values.ravel().tolist()
        try:
            a1, d1, v1 = build({})
            a2, d2, v2 = build(rho)
        except Exception as e:
            return {"same": False, "detail": f"{type(e).__name__}: {e}"[:200]}
        ok = {rho.get(a, a): {p: rho.get(d, d) for p, d in cs.items()} for a, cs in a1.items()} == a2
        ok = ok and [rho.get(d, d) for d in d1] == d2 and v1 == v2
        return {"same": bool(ok), "detail": [a1, a2]}
    if o["what"] == "sgrid":
        def build(m):
            n = lambda s_: m.get(s_, s_)
            sp = " " if o["space"] else ""
            ds = xr.Dataset(attrs={"Conventions": "SGRID-0.3"})
            for d, k in (("xc", 4), ("xn", 3), ("yc", 4), ("yn", 5)):
                ds = ds.assign_coords({n(d): np.arange(k)})
            ds[n("grid")] = xr.DataArray(0, attrs={
                "cf_role": "grid_topology", "topology_dimension": 2, "node_dimensions": f"{n('xn')} {n('yn')}",
                "face_dimensions": f"{n('xc')}:{sp}{n('xn')} (padding:{sp}both) {n('yc')}:{sp}{n('yn')} (padding:{sp}none)"})
            ds[n("data")] = ((n("yc"), n("xc")), np.arange(16.).reshape(4, 4) ** 1.2)
            g = Grid(ds, periodic=False)
            axes = {a: dict(g.axes[a].coords) for a in g.axes}
            r = g.interp(ds[n("data")], "X", boundary="extend")
            return axes, list(r.dims), r.values.ravel().tolist()
        try:
            a1, d1, v1 = build({})
        except Exception as e:
            return {"same": False, "detail": f"original raised {type(e).__name__}: {e}"[:200]}
        try:
            a2, d2, v2 = build(rho)
        except Exception as e:
            return {"same": False, "detail": f"renamed raised {type(e).__name__}: {e}"[:200]}
        ok = {a: {p: rho.get(d, d) for p, d in cs.items()} for a, cs in a1.items()} == a2
        return {"same": bool(ok and [rho.get(d, d) for d in d1] == d2 and v1 == v2), "detail": [a1, a2]}
    if o["what"] == "overlap_ufunc":
        from xgcm.grid_ufunc import apply_as_grid_ufunc

        def build(m):
            n = lambda s: m.get(s, s)
            ds = xr.Dataset(coords={n("xc"): np.arange(6.), n("xl"): np.arange(6.) - .5})
            g = Grid(ds, coords={n("X"): {"center": n("xc"), "left": n("xl")}}, periodic=False,
                     autoparse_metadata=False)
            da = xr.DataArray((np.arange(12.) * 5 % 7).reshape(2, 6), dims=[n("t"), n("xc")]).chunk({n("xc"): 3})
            d = n("D")
            r = apply_as_grid_ufunc(lambda a: a[..., 1:] - a[..., :-1], da, axis=[(n("X"),)], grid=g,
                                    signature=f"({d}:center)->({d}:left)", boundary_width={d: (1, 0)},
                                    boundary="extend", dask="allowed", map_overlap=True)
            return list(r.dims), r.compute().values.ravel().tolist()
        try:
            d1, v1 = build({})
        except Exception as e:
            return {"same": False, "detail": f"original raised {type(e).__name__}: {e}"[:200]}
        try:
            d2, v2 = build(rho)
        except Exception as e:
            return {"same": False, "detail": f"renamed raised {type(e).__name__}: {e}"[:200]}
        return {"same": [rho.get(d, d) for d in d1] == d2 and v1 == v2, "detail": [d1, d2]}
    if o["what"] == "metrics":
        def build(m):
            n = lambda s: m.get(s, s)
            ds = xr.Dataset(coords={n("xc"): np.arange(3.), n("yc"): np.arange(2.), n("xl"): np.arange(3.) - .5,
                                    n("yl"): np.arange(2.) - .5})
            ds[n("dx")] = (n("xc"), np.array([1., 2., 4.]))
            ds[n("dy")] = (n("yc"), np.array([3., 5.]))
            ds[n("area")] = ((n("yc"), n("xc")), np.outer([3., 5.], [1., 2., 4.]) * 1.5)
            mets = {(n("X"),): [n("dx")], (n("Y"),): [n("dy")]}
            if o["with_area"]:
                mets[(n("X"), n("Y"))] = [n("area")]
            g = Grid(ds, coords={n("X"): {"center": n("xc"), "left": n("xl")},
                                 n("Y"): {"center": n("yc"), "left": n("yl")}}, metrics=mets,
                     periodic=False, autoparse_metadata=False)
            da = xr.DataArray(np.arange(6.).reshape(2, 3) + 1, dims=[n("yc"), n("xc")], name=n("temp"))
            axes = [n(a) for a in o["axes"]]
            arg = axes[0] if len(axes) == 1 and o["as_str"] else axes
            r = g.integrate(da, arg)
            r2 = g.average(da, arg)
            # metric_weighted given as a plain string, a tuple, and a mapping
            mw = axes[0] if o["as_str"] else tuple(axes)
            r3 = g.interp(da, axes[0], metric_weighted=mw, boundary="extend") if o.get("mw", True) else r2
            r4 = g.interp(da, axes, metric_weighted={a: a for a in axes}, boundary="extend")
            # derivative and cumint take the axis as a plain string
            r5 = g.derivative(da, axes[0], boundary="extend")
            r6 = g.cumint(da, axes[0], boundary="fill")
            return list(r.dims), np.asarray(r.values).ravel().tolist(), \
                np.asarray(r2.values).ravel().tolist() + np.asarray(r3.values).ravel().tolist() + \
                np.asarray(r4.values).ravel().tolist() + np.asarray(r5.values).ravel().tolist() + \
                np.asarray(r6.values).ravel().tolist()
        try:
            d1, v1, w1 = build({})
            d2, v2, w2 = build(rho)
        except Exception as e:
            return {"same": False, "detail": f"{type(e).__name__}: {e}"[:200]}
        return {"same": [rho.get(d, d) for d in d1] == d2 and v1 == v2 and w1 == w2, "detail": [d1, d2, v1, v2]}
    raise KeyError(o["what"])


# ---- driver ------------------------------------------------------------------------------------
def generate(rng, tier):
    n = 450 if tier == "quick" else 4000
    base1 = K1.generate(rng, "quick")
    base9 = K9.generate(rng, "quick")
    base2 = G.generate(rng, "quick")
    cases = []
    i = 0
    while len(cases) < n:
        i += 1
        r = i % 10
        if r < 3:
            o = copy.deepcopy(base1[(7 * i) % len(base1)])
            rho = make_rho(rng, ctor_names(o["ctor"]) + [d for d, _ in o["dims"]])
            if rng.random() < 0.5 and len(o["call"]["axes"]) == 1:
                o["call"]["axis_as_list"] = True
            cases.append({"kind": "op", "rho": rho, "orig": o})
        elif r < 5:
            o = copy.deepcopy(base9[(7 * i) % len(base9)])
            rho = make_rho(rng, ctor_names(o["ctor"]) + [d for d, _ in o["dims"]])
            cases.append({"kind": "cumsum", "rho": rho, "orig": o})
        elif r < 6:
            o = copy.deepcopy(base2[(7 * i) % len(base2)])
            if isinstance(o["ctor"]["periodic"], list):
                o["ctor"]["periodic"] = {a: True for a in o["ctor"]["periodic"]}
            names = ctor_names(o["ctor"]) + ([d for d, _ in o["call"]["dims"]] if o.get("call") else [])
            cases.append({"kind": "pad", "rho": make_rho(rng, names), "orig": o})
        elif r < 8:
            o = K11.gen_case(rng)
            names = ctor_names(o["ctor"]) + [d for a in o["args"] for d, _ in a["dims"]] + \
                [d for a in o["in_sig"] + o["out_sig"] for d, _ in a]
            c = {"kind": "ufunc", "rho": make_rho(rng, names), "orig": o}
            if rng.random() < 0.5:
                dn = sorted({d for a in o["in_sig"] + o["out_sig"] for d, _ in a} |
                            {d for oo in (o["bound"], o["call"]) for d, _ in (oo.get("bw") or [])})
                c["rho_dummy"] = make_rho(rng, dn)
            cases.append(c)
        elif r < 9 and i % 20 >= 10:
            o = K5.gen_case(rng, nfaces=rng.randint(1, 3))
            names = ctor_names(o["ctor"]) + ["t"] + list(o["ctor"]["N"])
            cases.append({"kind": "faces", "rho": make_rho(rng, names, avoid=("face",)), "orig": o})
        elif r < 9:
            o = K8.gen_grid(rng)
            names = ["zc", "zo", "x", "t", "Z", o["da_name"], o["td_name"], o["tname"]]
            rho = make_rho(rng, names)
            if rng.random() < 0.6:
                # one of the user's dimensions is called like a temporary name the package uses internally
                k = rng.choice(["zc", "zo", "zo", "x", "t", "tname"])
                k = o["tname"] if k == "tname" else k
                tmp = rng.choice(["temp_unique", "temp_dim_target", "_temp_unique", "remapped"])
                for other in rho:
                    if rho[other] == tmp:
                        rho[other] = rho[k]
                rho[k] = tmp
            cases.append({"kind": "transform", "rho": rho, "orig": o})
        else:
            w = rng.choice(["signature", "comodo", "metrics", "overlap_ufunc"])
            if w == "signature":
                names = rng.sample(["X", "Y", "Z", "lon"], rng.randint(1, 3))
                mk = lambda: [[rng.choice(names), rng.choice(G.POS)] for _ in range(rng.randint(0, 2))]
                o = {"what": w, "in": [mk() for _ in range(rng.randint(1, 3))],
                     "out": [mk() for _ in range(rng.randint(1, 2))]}
                rho = make_rho(rng, names)
            elif w == "comodo":
                axes = rng.sample(["X", "Y", "Z"], rng.randint(1, 3))
                o = {"what": w, "axes": [[a, rng.randint(2, 4)] for a in axes]}
                rho = make_rho(rng, axes + [a.lower() + s for a in axes for s in "cl"] + ["data"])
                if len(axes) >= 2 and rng.random() < 0.5:
                    # two axes whose names differ in case only
                    a, b = rng.choice([("lat", "Lat"), ("x", "X"), ("ETA", "eta"), ("k", "K")])
                    taken = set(rho.values()) | {a, b}
                    for nm_ in list(rho):
                        if rho[nm_] in (a, b) and nm_ not in axes[:2]:
                            new = rho[nm_] + "_"
                            while new in taken:         # keep the renaming injective
                                new += "_"
                            taken.add(new)
                            rho[nm_] = new
                    rho[axes[0]], rho[axes[1]] = a, b
            elif w == "overlap_ufunc":
                o = {"what": w}
                rho = make_rho(rng, ["X", "xc", "xl", "t"])
                rho["D"] = rng.choice(["winner", "router", "x_inner", "outerY", "q", "Outer", "in", "uncentered"])
            else:
                o = {"what": w, "axes": rng.sample(["X", "Y"], rng.randint(1, 2)), "with_area": rng.random() < 0.5,
                     "as_str": rng.random() < 0.5}
                rho = make_rho(rng, ["X", "Y", "xc", "yc", "xl", "yl", "dx", "dy", "area", "temp"])
            cases.append({"kind": "other", "rho": rho, "orig": o})
    # a fixed pattern at every seed: every temporary dimension name the transform code uses internally, given
    # to every kind of user dimension in turn, for a linear and for a conservative transform with target_data
    # on the cell bounds
    for tmp in ("temp_unique", "temp_dim_target", "remapped"):
        for role in ("zc", "zo", "x", "t", "tname"):
            for want in ("linear", "conservative"):
                for _try in range(400):
                    o = K8.gen_grid(rng)
                    if o["method"] == want and (want == "linear" or any(d == "zo" for d, _ in o["tdims"])) \
                            and o["has_outer"] and (role != "t" or any(d == "t" for d, _ in o["dims"])) \
                            and (role != "tname" or o["target_kind"] == "arr"):
                        break
                else:
                    continue
                names = ["zc", "zo", "x", "t", "Z", o["da_name"], o["td_name"], o["tname"]]
                rho = make_rho(rng, names, avoid=(tmp,))
                rho[o["tname"] if role == "tname" else role] = tmp
                cases.append({"kind": "transform", "rho": rho, "orig": o})
    # ... user ufuncs whose dummy names are spelled like real axes of the grid but bound to OTHER axes, with
    # different widths on them; the dummies are renamed independently of the axes
    found = 0
    for _try in range(3000):
        if found >= 8:
            break
        o = K11.gen_case(rng)
        real_axes = {a for a, _ in o["ctor"]["coords"]}
        crossed = any(d in real_axes and d != ax for arg, axs in zip(o["in_sig"], o["axis"]) for (d, _), ax in zip(arg, axs))
        bws = [w for oo in (o["bound"], o["call"]) for w in (oo.get("bw") or [])]
        if not crossed or len({tuple(w) for _, w in bws}) < 2 or o.get("kind"):
            continue
        names = ctor_names(o["ctor"]) + [d for a in o["args"] for d, _ in a["dims"]] + \
            [d for a in o["in_sig"] + o["out_sig"] for d, _ in a]
        dn = sorted({d for a in o["in_sig"] + o["out_sig"] for d, _ in a} | {d for d, _ in bws})
        cases.append({"kind": "ufunc", "rho": make_rho(rng, names), "orig": o, "rho_dummy": make_rho(rng, dn, avoid=tuple(real_axes))})
        found += 1
    # ... metric operations on grids whose axis names have several letters, one a repetition of the other
    for ax_names in (("lon", "lat"), ("Z", "ZZ"), ("ZZ", "Z"), ("ab", "ba"), ("X", "XX")):
        for axes_ in (["X"], ["Y"], ["X", "Y"]):
            rho = make_rho(rng, ["X", "Y", "xc", "yc", "xl", "yl", "dx", "dy", "area", "temp"], avoid=ax_names)
            rho["X"], rho["Y"] = ax_names
            cases.append({"kind": "other", "rho": rho,
                          "orig": {"what": "metrics", "axes": axes_, "with_area": False, "as_str": len(axes_) == 1}})
    # ... the names of keyword parameters of the xarray methods the package calls, given to each dimension
    # of a cumsum / stencil call in turn (a name must never be passed as a keyword)
    for word in ("drop", "indexers", "missing_dims", "new_name_or_name_dict", "dim", "axis", "keep_attrs", "mode"):
        for kind, base in (("cumsum", base9), ("op", base1)):
            o = copy.deepcopy(base[(len(cases) * 7) % len(base)])
            names = ctor_names(o["ctor"]) + [d for d, _ in o["dims"]]
            for victim in [d for d, _ in o["dims"]]:
                rho = make_rho(rng, names, avoid=(word,))
                rho[victim] = word
                cases.append({"kind": kind, "rho": rho, "orig": o})
    # ... names that are not identifiers (blanks, hyphens, dots, the punctuation of the signature grammar) for
    # the axes and dimensions of stencil / cumsum / padding calls: a Grid's axes and a dataset's dimensions
    # may be called anything
    for word in ("lon-axis", "x.y", "my axis", "a:b", "(x)", "x,y", "-", "->", "1", "X:center"):
        for kind, base in (("op", base1), ("cumsum", base9)):
            o = copy.deepcopy(base[(len(cases) * 11) % len(base)])
            names = ctor_names(o["ctor"]) + [d for d, _ in o["dims"]]
            for victim in (o["call"]["axes"][0], o["dims"][0][0]):
                rho = make_rho(rng, names, avoid=(word,))
                rho[victim] = word
                cases.append({"kind": kind, "rho": rho, "orig": o})
    # ... every word of the SGRID attribute grammar as the name of each dimension of an SGRID dataset in turn
    for word in ("padding", "high", "low", "both", "none", "padding:", "center"):
        if ":" in word:
            continue
        for role in ("xc", "xn", "yc", "yn", "grid", "data"):
            rho = make_rho(rng, ["xc", "xn", "yc", "yn", "grid", "data"], avoid=(word,))
            rho[role] = word
            cases.append({"kind": "other", "rho": rho, "orig": {"what": "sgrid", "space": rng.random() < 0.5}})
    # ... and every dummy name of the pool (names containing position words among them) for a user ufunc
    # under map_overlap
    for D in ["winner", "router", "x_inner", "outerY", "q", "Outer", "in", "uncentered", "left_", "Xright", "center"]:
        rho = make_rho(rng, ["X", "xc", "xl", "t"], avoid=(D,))
        rho["D"] = D
        cases.append({"kind": "other", "rho": rho, "orig": {"what": "overlap_ufunc"}})
    return cases


RUNNERS = {"faces": (ren_faces, K5.run_impl, same_faces), "op": (ren_op, K1.run_impl, same_op), "cumsum": (ren_op, K9.run_impl, same_op),
           "pad": (ren_pad, G.run_impl, same_pad), "ufunc": (ren_ufunc, K11.run_impl, same_ufunc)}


def run_impl(case):
    kind, rho = case["kind"], case["rho"]
    inv = {v: k for k, v in rho.items()}
    if kind == "other":
        return run_other(case)
    if kind == "transform":
        ren = ren_transform(case["orig"], rho)
        o1, o2 = K8.run_impl(case["orig"]), K8.run_impl(ren)
        return {"same": same_transform(o1, o2, inv, case["orig"], ren), "o1": o1, "o2": o2, "ren": ren}
    rf, run, cmp_ = RUNNERS[kind]
    ren = rf(case["orig"], rho, case["rho_dummy"]) if kind == "ufunc" and case.get("rho_dummy") else rf(case["orig"], rho)
    o1, o2 = run(case["orig"]), run(ren)
    return {"same": bool(cmp_(o1, o2, inv)), "o1": o1, "o2": o2, "ren": ren}


def coq_case(case, obs):
    kind = case["kind"]
    same = C.cbool(obs["same"])
    if kind in ("other", "pad"):
        # (the pad replays are compared at implementation level only: the record fields of the C02
        # evaluator clash with those of C01 in one cases file)
        return f"K13_other {same}"
    mod = {"op": K1, "cumsum": K9, "pad": G, "ufunc": K11, "transform": K8, "faces": K5}[kind]
    term = mod.coq_case(obs["ren"], obs["o2"])
    if kind == "transform":
        return f"K13_transform {same} ({term})"
    return f"K13_{kind} {same} {term}"


def distribution(cases, obs):
    from collections import Counter
    c = Counter()
    for case, o in zip(cases, obs):
        c["kind:" + case["kind"] + (":" + case["orig"]["what"] if case["kind"] == "other" else "")] += 1
        c["same" if o["same"] else "DIFFERENT"] += 1
        o2 = o.get("o2")
        if isinstance(o2, dict):
            c["renamed:" + ("err:" + str(o2.get("err") or o2.get("ctor_err")) if ("err" in o2 or "ctor_err" in o2)
                            else "ok")] += 1
    return dict(c)
