"""C07 -- the conservative transform neither creates nor destroys the transformed quantity."""
from __future__ import annotations

import math
from fractions import Fraction

from .. import common as C

ID = "C07"
PROPERTY_FILE = "Properties/C07.v"
PROOF_TARGETS = ["Properties/C07.vo", "Proofs/Tie_transform.vo"]
EVAL_TARGETS = ["Corr/Eval_C07.vo"]
TIE_LEMMAS = ["Tie_conservative_kernel"]
IMPORTS = ("From Coq Require Import List Bool ZArith QArith String PrimFloat.\n"
           "From XV Require Import Base.Res Base.Ops Base.FloatOps Model.Transform Spec.S07 Corr.Eval_C07.")
CASE_TYPE = "case07"
RUN_FN = "run07"
SCOPE = "Q_scope"
SHARD = 120
RULE = ("(a) the kernel _interp_1d_conservative run uncompiled through the numba stand-in on arbitrary doubles "
        "(incl. NaN bounds, repeated values, values on bin edges), compared bit for bit with the translated "
        "kernel at Coq primitive floats; (b) interp_1d_conservative on 1-3 columns with profiles whose cell spans "
        "are powers of two and integer/half-integer bins (float arithmetic exact), increasing, decreasing and "
        "non-monotonic bins, compared exactly with the overlap-weight specification and the model over Q. "
        "Non-trivial = profile not strictly increasing, or a value on a bin edge, or decreasing bins, or >1 column.")


def fhex(x):
    if math.isnan(x):
        return "nan"
    if math.isinf(x):
        return "infinity" if x > 0 else "neg_infinity"
    h = float(x).hex()
    return f"({h})" if h.startswith("-") else h


def nontrivial(case, obs):
    if case["kind"] == "kernel":
        return True
    th = case["theta"][0]
    inc = all(b > a for a, b in zip(th, th[1:]))
    onedge = any(t in case["bins"] for col in case["theta"] for t in col)
    dec = len(case["bins"]) > 1 and case["bins"][0] > case["bins"][-1]
    return (not inc) or onedge or dec or len(case["theta"]) > 1


def describe(case, obs):
    return f"{case} -> impl {str(obs)[:200]}"


def gen_profile(rng, n):
    t = [rng.choice([0, 1, 2, 3, 4])]
    for _ in range(n):
        t.append(t[-1] + rng.choice([0, 1, 2, 4, -1, -2, 1, 2]))
    return t


def gen_cols(rng):
    n = rng.randint(1, 5)
    ncol = rng.choice([1, 1, 2, 3])
    theta = [gen_profile(rng, n) for _ in range(ncol)]
    phi = [[rng.choice([0, 1, 2, 3, 5, -2, 8]) for _ in range(n)] for _ in range(ncol)]
    lo = min(min(c) for c in theta)
    hi = max(max(c) for c in theta)
    r = rng.random()
    pool = sorted({Fraction(k, 2) for k in range(2 * lo - 4, 2 * hi + 5)})
    inner = [b for b in pool if lo < b < hi]
    k = rng.randint(0, min(4, len(inner)))
    if r < 0.7:
        edges = sorted(set([Fraction(lo) - rng.choice([0, 0, 1]), Fraction(hi) + rng.choice([0, 0, 1])] +
                           rng.sample(inner, k)))
    elif r < 0.85:    # not spanning
        edges = sorted(set(rng.sample(pool, min(len(pool), rng.randint(2, 4)))))
    else:
        edges = sorted(set(rng.sample(inner, k) + [Fraction(lo), Fraction(hi)]))
    if len(edges) < 2:
        edges = [edges[0], edges[0] + 1]
    bins = [float(b) for b in edges]
    m = rng.random()
    if m < 0.3:
        bins = bins[::-1]
    elif m < 0.38 and len(bins) > 2:
        bins[0], bins[1] = bins[1], bins[0]      # non-monotonic
    if rng.random() < 0.2:
        # the same profile squeezed into slivers of width 2^-44 around 1.0 (still exactly
        # representable, all ratios dyadic): cells far thinner than any tolerance one might
        # be tempted to use are still divided between the bins in proportion to the overlap
        sc = 2.0 ** -44
        theta = [[1.0 + t * sc for t in col] for col in theta]
        bins = [1.0 + b * sc for b in bins]
    return {"kind": "cols", "phi": phi, "theta": theta, "bins": bins}


def gen_kernel(rng):
    n = rng.randint(1, 5)
    m = rng.randint(1, 4)

    def val():
        r = rng.random()
        if r < 0.1:
            return float("nan")
        if r < 0.5:
            return float(rng.randint(-3, 6))
        return rng.uniform(-3, 6)
    t1 = [val() for _ in range(n)]
    t2 = [t1[i] if rng.random() < 0.15 else val() for i in range(n)]
    edges = sorted(set(rng.choice([float(rng.randint(-4, 7)), rng.uniform(-4, 7)]) for _ in range(m + 1)))
    while len(edges) < 2:
        edges.append(edges[-1] + 1.0)
    if rng.random() < 0.3:
        edges[rng.randrange(len(edges))] = rng.choice([x for x in t1 + t2 if not math.isnan(x)] or [0.0])
        edges = sorted(set(edges))
        if len(edges) < 2:
            edges.append(edges[-1] + 1.0)
    phi = [rng.choice([1.0, 2.5, rng.uniform(-2, 9), 0.1]) for _ in range(n)]
    return {"kind": "kernel", "phi": phi, "t1": t1, "t2": t2, "h1": edges[:-1], "h2": edges[1:]}


def generate(rng, tier):
    n = 300 if tier == "quick" else 5000
    return [gen_kernel(rng) if i % 2 else gen_cols(rng) for i in range(n)]


def run_impl(case):
    import numpy as np
    from xgcm import transform as T
    if case["kind"] == "kernel":
        out = T._interp_1d_conservative(np.array(case["phi"]), np.array(case["t1"]), np.array(case["t2"]),
                                        np.array(case["h1"]), np.array(case["h2"]))
        return {"out": [float(v) for v in out]}
    try:
        out = T.interp_1d_conservative(np.array(case["phi"], dtype=float), np.array(case["theta"], dtype=float),
                                       np.array(case["bins"], dtype=float))
        return {"out": [[str(Fraction(float(v))) for v in row] for row in out]}
    except Exception as e:
        return {"err": type(e).__name__}


def coq_case(case, obs):
    if case["kind"] == "kernel":
        fl = lambda xs: "(" + C.clist(fhex(x) + "%float" for x in xs) + ")"
        return (f"K07_kernel {fl(case['phi'])} {fl(case['t1'])} {fl(case['t2'])} {fl(case['h1'])} "
                f"{fl(case['h2'])} {fl(obs['out'])}")
    q = lambda xs: C.clist(C.cQ(Fraction(x)) for x in xs)
    qq = lambda rows: "(" + C.clist(q(r) for r in rows) + ")"
    if "err" in obs:
        impl = f"(Err {C.cekind(obs['err'])})"
    else:
        impl = "(Ok " + qq([[Fraction(v) for v in row] for row in obs["out"]]) + ")"
    return f"K07_cols {qq(case['phi'])} {qq(case['theta'])} ({q(case['bins'])}) {impl}"


def distribution(cases, obs):
    from collections import Counter
    c = Counter()
    for case, o in zip(cases, obs):
        c[case["kind"]] += 1
        if case["kind"] == "cols":
            b = case["bins"]
            c["bins:" + ("inc" if all(y > x for x, y in zip(b, b[1:])) else
                         "dec" if all(y < x for x, y in zip(b, b[1:])) else "nonmono")] += 1
            c["ncol=" + str(len(case["theta"]))] += 1
            c["err" if "err" in o else "ok"] += 1
        else:
            c["nan_bounds" if any(math.isnan(x) for x in case["t1"] + case["t2"]) else "finite"] += 1
    return dict(c)


def extra_checks(rng, tier, notes):
    """Conservation through Grid.transform(method='conservative'), target_data on bounds or
    on centres, extra dims: whenever a column's bounding values lie within the span of the
    bins, the sum over the bins must equal the sum over the cells (inputs are chosen so
    that float arithmetic is exact)."""
    import math
    import warnings
    import numpy as np
    from . import c08 as K8
    out = []
    n = 60 if tier == "quick" else 800
    done = cols_checked = 0
    while done < n:
        case = K8.gen_grid(rng)
        if case["method"] != "conservative" or case["periodic"]:
            continue
        done += 1
        try:
            g, da, target, kw, td = K8.build_grid_call(case)
            with warnings.catch_warnings():
                warnings.simplefilter("ignore")
                r = g.transform(da, "Z", target, **kw)
                # the bounds the method works on
                tdb = td if "zo" in td.dims else g.interp(td, "Z", to="outer", boundary="extend")
            newdim = r.dims[-1]
            lo, hi = min(case["levels"]), max(case["levels"])
            tot_out = r.sum(newdim)
            tot_in = da.sum("zc")
            inside = ((tdb.min("zo") >= lo) & (tdb.max("zo") <= hi))
            tot_out, tot_in, inside = np.broadcast_arrays(*[x.transpose(*[d for d in da.dims if d != "zc"]).values
                                                            if hasattr(x, "dims") and set(x.dims) == set(d for d in da.dims if d != "zc")
                                                            else None for x in (tot_out, tot_in, inside.broadcast_like(tot_in))])
            bad = inside & (tot_out != tot_in)
            cols_checked += int(inside.sum())
            # no state is carried from one call to the next: after a transform of ANOTHER field of the same
            # name, dimensions and shape on the same Grid, the call gives what it gave before
            if td is not None:
                with warnings.catch_warnings():
                    warnings.simplefilter("ignore")
                    other = (td[::-1] if td.ndim == 1 else td.isel({td.dims[0]: slice(None, None, -1)})) * 1.0 + 0.5
                    other = other.assign_coords({d: td[d] for d in td.dims if d in td.coords}).rename(td.name)
                    # (on a Grid of its own, so that the other field is the first thing this Grid sees)
                    gB, daB, targetB, kwB, _ = K8.build_grid_call(case)
                    try:
                        gB.transform(daB, "Z", targetB, **{**kwB, "target_data": other})
                    except Exception:
                        pass
                    r_again = gB.transform(daB, "Z", targetB, **kwB)
                if list(r_again.dims) != list(r.dims) or not np.array_equal(np.asarray(r_again.values), np.asarray(r.values), equal_nan=True):
                    out.append((case, {"first": np.asarray(r.values).tolist(), "after_another_call": np.asarray(r_again.values).tolist()},
                                "the same conservative transform gives another result after a transform of a "
                                "different target_data of the same name and shape on the same Grid"))
            # the name of target_data is a label: called like the axis' own centre dimension, like the dataset's
            # coordinate of that name, or anything else, a 1-D profile on the centres bins the same way
            if td is not None and "zc" in td.dims:
                td1 = td if td.ndim == 1 else td.isel({d: 0 for d in td.dims if d != "zc"}, drop=True)
                with warnings.catch_warnings():
                    warnings.simplefilter("ignore")
                    named = {}
                    for nm_ in ("zc", "dens", None):
                        gN, daN, targetN, kwN, _ = K8.build_grid_call(case)
                        rN = gN.transform(daN, "Z", targetN, **{**kwN, "target_data": td1.rename(nm_)})
                        named[nm_] = np.asarray(rN.transpose(*sorted(rN.dims[:-1]), rN.dims[-1]).values)
                if not all(v.shape == named["dens"].shape and np.array_equal(v, named["dens"], equal_nan=True)
                           for v in named.values()):
                    out.append((case, {str(k_): v.tolist() for k_, v in named.items()},
                                "a 1-D target_data profile on the centres is binned differently depending on its NAME"))
            # the bins are the VALUES of `target`, however it is packaged: a DataArray without a
            # coordinate, or labelled by something else (the edge number), bins the same way
            for pack in ({"target_nocoord": True}, {"target_labels": "index"}):
                g2, da2, target2, kw2, _ = K8.build_grid_call({**case, "target_kind": "arr", "target_dim": None, **pack})
                with warnings.catch_warnings():
                    warnings.simplefilter("ignore")
                    r2 = g2.transform(da2, "Z", target2, **kw2)
                r2 = r2.rename({r2.dims[-1]: "__new__"}) if r2.dims[-1] != newdim else r2.rename({newdim: "__new__"})
                r1 = r.rename({newdim: "__new__"})
                if set(r2.dims) != set(r1.dims) or not np.array_equal(r2.transpose(*r1.dims).values, r1.values, equal_nan=True):
                    out.append(({**case, **pack}, {"as_given": r.values.tolist(), "repackaged": r2.values.tolist()},
                                f"the same bin edges packaged as a DataArray ({pack}) are binned differently"))
                    break
            if bad.any():
                out.append(({k: v for k, v in case.items()}, {"sum_bins": tot_out.tolist(), "sum_cells": tot_in.tolist()},
                            "Grid.transform(method='conservative') does not conserve although the column's "
                            f"target_data lies within the bins: {case}"))
        except Exception as e:   # the wrapper must not raise on these well-posed calls
            out.append((case, {"err": type(e).__name__ + ": " + str(e)[:200]},
                        f"Grid.transform(method='conservative') raised {type(e).__name__} on a well-posed call"))
    notes.append(f"conservation through Grid.transform checked on {done} calls, {cols_checked} in-span columns")
    out.extend(awkward_values(rng, tier, notes))
    out.extend(all_integer_lazy(rng, tier, notes))
    return out


def all_integer_lazy(rng, tier, notes):
    """Everything held as integers (data, target_data, bin edges) and chunked over the extra dimension: the
    lazy result must say that it is floating point (bin contents are fractions), and summing it lazily
    gives the column totals."""
    import warnings
    import numpy as np
    import xarray as xr
    from xgcm import Grid
    out = []
    n = 20 if tier == "quick" else 300
    for i in range(n):
        N, nx = rng.randint(1, 4), rng.randint(1, 3)
        theta = np.array([gen_profile(rng, N) for _ in range(nx)], dtype="int64")
        lo, hi = int(theta.min()), int(theta.max())
        inner = sorted(set(rng.randint(lo, hi) for _ in range(rng.randint(0, 3))) - {lo, hi})
        edges = [lo - rng.choice([0, 1])] + inner + [hi + rng.choice([0, 1, 2])]
        # (unsigned when nothing is negative: differences of unsigned integers wrap around)
        # every integer type in both orientations in turn (enumerated, not sampled)
        kinds = ["int64", "uint8", "int32", "uint16"]
        dt = kinds[i % 4] if min(edges) >= 0 or i % 2 == 0 else "int64"
        edges = np.array(edges, dtype=dt)
        if len(set(edges.tolist())) < 2:
            edges = np.array([lo, lo + 1], dtype="int64")
        if (i // 4) % 2 == 0:
            edges = edges[::-1].copy()
        phi = np.array([[rng.randint(-6, 9) for _ in range(N)] for _ in range(nx)], dtype="int64")
        rec = {"phi": phi.tolist(), "theta": theta.tolist(), "bins": edges.tolist(), "all": "integers, chunked over x"}
        try:
            with warnings.catch_warnings():
                warnings.simplefilter("ignore")
                ds = xr.Dataset(coords={"zc": np.arange(N) + 0.5, "zo": np.arange(N + 1.0), "x": np.arange(nx)})
                g = Grid(ds, coords={"Z": {"center": "zc", "outer": "zo"}}, periodic=False, autoparse_metadata=False)
                da = xr.DataArray(phi, dims=["x", "zc"]).chunk({"x": 1})
                td = xr.DataArray(theta, dims=["x", "zo"], name="level").chunk({"x": 1})
                r = g.transform(da, "Z", edges, target_data=td, method="conservative")
                declared = r.dtype
                comp = r.compute()
                lazy_tot = r.sum(r.dims[-1]).compute().transpose("x").values
            tot_in = phi.sum(-1).astype(float)
            if declared != comp.dtype or not np.array_equal(np.asarray(lazy_tot, dtype=float), tot_in):
                out.append((rec, {"declared": str(declared), "computes_to": str(comp.dtype),
                                  "lazy_sum": np.asarray(lazy_tot).tolist(), "sum_cells": tot_in.tolist()},
                            "all-integer lazy conservative transform: the lazy result does not say what it is, or its "
                            "lazy sum is not the column total"))
        except Exception as e:
            out.append((rec, {"err": type(e).__name__ + ": " + str(e)[:200]}, "conservative transform raised on a well-posed call"))
    notes.append(f"{n} all-integer lazy conservative transforms: declared dtype and lazy column totals")
    return out


def awkward_values(rng, tier, notes):
    """Conservation for target_data that is not exactly representable in single precision (a
    density around 1027, a time in seconds), with data held as float32, float64 or integers:
    the totals agree to within 1e-8 of the column's absolute content (the arithmetic is
    inexact here, so this is a tolerance check, not an exact comparison)."""
    import warnings
    import numpy as np
    import xarray as xr
    from xgcm import Grid
    from xgcm import transform as T
    out = []
    n = 30 if tier == "quick" else 400
    for _ in range(n):
        N, nx = rng.randint(1, 5), rng.randint(1, 3)
        base = rng.choice([1027.0, 86400.0 * 365, 273.15])
        theta = np.array([[base + sum(rng.choice([1, 1, 1, -1]) * rng.uniform(0.01, 0.5) for _ in range(k + 1))
                           for k in range(N + 1)] for _ in range(nx)])
        lo, hi = float(theta.min()), float(theta.max())
        inner = sorted(rng.uniform(lo, hi) for _ in range(rng.randint(0, 3)))
        edges = np.array([lo - rng.choice([0.0, 0.125])] + inner + [hi + rng.choice([0.0, 0.125])])
        if rng.random() < 0.3:
            edges = edges[::-1].copy()
        dtype = rng.choice(["float32", "float64", "int64"])
        phi = np.array([[rng.randint(-6, 9) for _ in range(N)] for _ in range(nx)]).astype(dtype)
        rec = {"phi": phi.tolist(), "dtype": dtype, "theta": theta.tolist(), "bins": edges.tolist()}
        tot_in = phi.astype(float).sum(-1)
        tol = 1e-8 * (np.abs(phi.astype(float)).sum(-1) + 1.0)
        try:
            with warnings.catch_warnings():
                warnings.simplefilter("ignore")
                k = T.interp_1d_conservative(phi, theta, edges)
                ds = xr.Dataset(coords={"zc": np.arange(N) + 0.5, "zo": np.arange(N + 1.0), "x": np.arange(nx)})
                g = Grid(ds, coords={"Z": {"center": "zc", "outer": "zo"}}, periodic=False, autoparse_metadata=False)
                da = xr.DataArray(phi, dims=["x", "zc"])
                td = xr.DataArray(theta, dims=["x", "zo"], name="dens")
                chunked = rng.random() < 0.4
                if chunked:
                    da, td = da.chunk({"x": 1}), td.chunk({"x": 1})
                r = g.transform(da, "Z", edges, target_data=td, method="conservative")
                tot_grid = r.sum(r.dims[-1]).transpose("x").values
            for name, tot in (("interp_1d_conservative", np.asarray(k, dtype=float).sum(-1)), ("Grid.transform", tot_grid)):
                if not np.all(np.abs(tot - tot_in) <= tol):
                    out.append(({**rec, "chunked": chunked}, {"via": name, "sum_bins": np.asarray(tot).tolist(),
                                                                "sum_cells": tot_in.tolist()},
                                f"{name} does not conserve {dtype} data binned by target_data near {base}: "
                                f"{np.asarray(tot).tolist()} vs {tot_in.tolist()}"))
                    break
        except Exception as e:
            out.append((rec, {"err": type(e).__name__ + ": " + str(e)[:200]}, "conservative transform raised on a well-posed call"))
    notes.append(f"{n} calls with target_data not representable in single precision and float32/float64/integer data: "
                 "totals compared to 1e-8 of the absolute content")
    return out
