"""C05 -- halo cells across every kind of face link come from the documented cell."""
from __future__ import annotations

from fractions import Fraction

from .. import common as C
from . import c02 as G

ID = "C05"
PROPERTY_FILE = "Properties/C05.v"
PROOF_TARGETS = ["Properties/C05.vo"]
EVAL_TARGETS = ["Corr/Eval_C05.vo"]
IMPORTS = ("From Coq Require Import List Bool ZArith QArith String.\n"
           "From XV Require Import Base.Res Base.Assoc Base.Seq1D Base.Tensor Model.Axis Model.GridCtor "
           "Model.Pad Model.FaceConn Model.FacePad Corr.Eval_C05.")
CASE_TYPE = "case05"
RUN_FN = "run05"
SCOPE = "nat_scope"
SHARD = 40
RULE = ("random reciprocal link tables over 1-6 faces (all 8 kinds: left/right x same/swapped axis x "
        "normal/reversed, self-links) x N in 2..4 x asymmetric widths 0..min(3,N) per axis x three rules "
        "and fill values on unlinked edges x scalar (any positions) and vector (u on X-left, v on Y-left) x "
        "extra dimension x dimension order; data = distinct integers per cell. Non-trivial = at least one "
        "link is crossed by a non-zero width.")


def nontrivial(case, obs):
    bw = dict((a, w) for a, w in (case["bw"] or []))
    for f, fal in case["conn"]:
        for a, (l, r) in fal:
            lo, hi = bw.get(a, (0, 0))
            if (l is not None and lo > 0) or (r is not None and hi > 0):
                return True
    return False


def describe(case, obs):
    return (f"conn={case['conn']} N={case['N']} dims={case['dims']} vector={case['vector']} "
            f"boundary_width={case['bw']} boundary={case['boundary']} fill={case['fill']} "
            f"grid(boundary={case['ctor']['boundary']}, periodic={case['ctor']['periodic']}) -> impl {str(obs)[:160]}")


def random_table(rng, nfaces, p_link=0.8):
    slots = [(f, a, s) for f in range(nfaces) for a in ("X", "Y") for s in (0, 1)]
    rng.shuffle(slots)
    tbl = {f: {a: [None, None] for a in ("X", "Y")} for f in range(nfaces)}
    free = list(slots)
    while len(free) >= 2 and rng.random() < p_link:
        f, a, s = free.pop()
        j = rng.randrange(len(free))
        g, b, t = free.pop(j)
        rev = (s == t)
        tbl[f][a][s] = [g, b, rev]
        tbl[g][b][t] = [f, a, rev]
    out = []
    for f in range(nfaces):
        al = [[a, tbl[f][a]] for a in ("X", "Y") if tbl[f][a] != [None, None] or rng.random() < 0.3]
        rng.shuffle(al)
        out.append([f, al])
    if rng.random() < 0.6:
        rng.shuffle(out)          # the faces may be listed in any order
    return out


def gen_case(rng, vector=None, nfaces=None, N=None):
    nfaces = nfaces or rng.randint(1, 6)
    N = N or rng.randint(2, 4)
    conn = random_table(rng, nfaces, p_link=0.9)
    three = rng.random() < 0.25
    axes = ["X", "Y"] + (["Z"] if three else [])
    coords = [["X", [["center", "x_c"], ["left", "x_g"]]], ["Y", [["center", "y_c"], ["left", "y_g"]]]]
    if three:
        coords.append(["Z", [["center", "z_c"]]])
    rng.shuffle(coords)
    Ns = {"X": N, "Y": N, "Z": 2}
    pr = rng.random()
    periodic = True if pr < 0.3 else False if pr < 0.7 else {a: rng.random() < 0.5 for a in axes}
    ctor = {"coords": coords, "N": Ns, "periodic": periodic,
            "boundary": G.kwval(rng, axes, G.WORDS), "fill": G.kwval(rng, axes, [0, 3, -2, 7])}
    if vector is None:
        vector = rng.random() < 0.45
    extra = [["t", rng.choice([1, 2, 2])]] if rng.random() < 0.4 else []
    if three and rng.random() < 0.7:
        extra.append(["z_c", 2])

    def mk(dx, dy, off):
        dims = [["face", nfaces], [dy, N], [dx, N]] + extra
        rng.shuffle(dims)
        size = 1
        for _, l in dims:
            size *= l
        return dims, [off + 1 + i for i in range(size)]

    partner = None
    vaxis = None
    if vector:
        udims, uvals = mk("x_g", "y_c", 100)
        vdims, vvals = mk("x_c", "y_g", 5000)
        if rng.random() < 0.5:
            vaxis, dims, vals, partner = "X", udims, uvals, {"axis": "Y", "dims": vdims, "vals": vvals}
        else:
            vaxis, dims, vals, partner = "Y", vdims, vvals, {"axis": "X", "dims": udims, "vals": uvals}
    else:
        dims, vals = mk(rng.choice(["x_c", "x_g"]), rng.choice(["y_c", "y_g"]), 10)
    m = min(3, N)
    r = rng.random()
    if r < 0.45:
        bw_axes = ["X", "Y"]
    elif r < 0.7:
        bw_axes = ["X"]
    else:
        bw_axes = ["Y"]
    rng.shuffle(bw_axes)
    bw = [[a, [rng.randint(0, m), rng.randint(0, m)]] for a in bw_axes]
    return {"ctor": ctor, "N": N, "conn": conn, "vector": vaxis, "dims": dims, "vals": vals,
            "partner": partner, "bw": bw, "boundary": G.kwval(rng, axes, G.WORDS),
            "fill": G.kwval(rng, axes, [0, 5, -1, 9, 0.5]),
            # how the numbers are held (the partner component possibly differently)
            # the labels the dataset gives its faces: 0..n-1 (None), 1-based, or any distinct integers;
            # the table is keyed by the labels, the model works on positions
            "labels": None if rng.random() < 0.7 else rng.choice([list(range(1, nfaces + 1)),
                                                                   rng.sample(range(0, 9), nfaces)]),
            "links_as_lists": rng.random() < 0.25,
            "lazy": rng.random() < 0.2, "bw_spelling": rng.choice(["tuple", "tuple", "list", "numpy"]),
            "dtype": rng.choice(["float64", "float64", "int64", "float32"]),
            "partner_dtype": rng.choice(["float64", "int64", "float32"]), "warmup": rng.random() < 0.3}


def generate(rng, tier):
    n = 260 if tier == "quick" else 4000
    cases = [gen_case(rng) for _ in range(n)]
    if tier == "thorough":
        # all 8 kinds x all width pairs for 2 faces, N = 2..3
        for N in (2, 3):
            for _ in range(200):
                cases.append(gen_case(rng, nfaces=2, N=N))
    return cases


def build(case):
    import numpy as np
    import xarray as xr
    from xgcm import Grid
    c = case["ctor"]
    sizes = {"face": len(case["conn"])}
    for a, cs in c["coords"]:
        for p, d in cs:
            sizes[d] = G.plen(p, c["N"][a])
    ds = xr.Dataset({f"v_{d}": ((d,), np.zeros(n)) for d, n in sizes.items()})
    coords = {a: {p: d for p, d in cs} for a, cs in c["coords"]}
    lab = case.get("labels")
    L = (lambda f: lab[f]) if lab else (lambda f: f)
    if lab:
        ds = ds.assign_coords(face=("face", list(lab)))
    seq = list if case.get("links_as_lists") else tuple      # a table read from JSON / YAML spells links as lists
    lk = lambda l: seq((L(l[0]), l[1], l[2])) if l is not None else None
    fc = {"face": {L(f): {a: (lk(l), lk(r)) for a, (l, r) in fal} for f, fal in case["conn"]}}
    g = Grid(ds, coords=coords, periodic=c["periodic"], boundary=c["boundary"], fill_value=c["fill"],
             face_connections=fc, autoparse_metadata=False)
    return ds, g, fc


def mkda(dims, vals, dtype="float64"):
    import numpy as np
    import xarray as xr
    return xr.DataArray(np.array(vals, dtype=dtype).reshape([l for _, l in dims]), dims=[d for d, _ in dims])


def run_impl(case):
    from xgcm.padding import _get_all_connection_axes, pad
    ds, g, fc = build(case)
    da = mkda(case["dims"], case["vals"], case.get("dtype", "float64"))
    import numpy as np
    mk = {"tuple": tuple, "list": list, "numpy": lambda w: (np.int64(w[0]), np.int32(w[1]))}[case.get("bw_spelling", "tuple")]
    bw = {a: mk(w) for a, w in case["bw"]} if case["bw"] is not None else None
    if case.get("lazy"):
        da = da.chunk({d: 1 for d in da.dims if d in ("face", "t")})
    order = []
    if bw is not None:
        needed = _get_all_connection_axes(fc, "face") + list(bw.keys())
        order = [a for a in g.axes if a in needed]
        order += [a for a in dict.fromkeys(needed) if a not in order]
    kwargs = {}
    if case["vector"]:
        data = {case["vector"]: da}
        p = case["partner"]
        kwargs["other_component"] = {p["axis"]: mkda(p["dims"], p["vals"], case.get("partner_dtype", "float64"))}
    else:
        data = da
    try:
        if case.get("warmup"):
            # nothing is carried from one call to the next: other values through the same grid first
            try:
                w = {k_: v * 2 + 1 for k_, v in data.items()} if isinstance(data, dict) else data * 2 + 1
                wk = {"other_component": {k_: v * 2 + 1 for k_, v in kwargs["other_component"].items()}} \
                    if "other_component" in kwargs else {}
                pad(w, g, boundary_width=bw, boundary=case["boundary"], fill_value=case["fill"], **wk)
            except Exception:
                pass
        r = pad(data, g, boundary_width=bw, boundary=case["boundary"], fill_value=case["fill"], **kwargs)
        if isinstance(r, dict):
            [r] = list(r.values())
        out_order = sorted(r.dims)
        r = r.transpose(*out_order)
        return {"order": order, "out_order": out_order,
                "dims": [[d, int(n)] for d, n in zip(r.dims, r.shape)],
                "vals": [str(Fraction(float(v))) for v in r.values.ravel()]}
    except Exception as e:
        return {"order": order, "out_order": sorted(d for d, _ in case["dims"]), "err": type(e).__name__}


def _link(l):
    return C.copt(l, lambda v: f"({C.cZ(v[0])}%Z, {C.cstr(v[1])}, {C.cbool(v[2])})")


def coq_conn(conn):
    return C.clist(
        f"({C.cZ(f)}%Z, " + C.clist(f"({C.cstr(a)}, ({_link(l)}, {_link(r)}))" for a, (l, r) in fal) + ")"
        for f, fal in conn)


def coq_case(case, obs):
    ctor = G.coq_ctor(case["ctor"])
    bw = "None" if case["bw"] is None else "(Some " + C.clist(
        f"({C.cstr(a)}, ({C.cnat(lo)}, {C.cnat(hi)}))" for a, (lo, hi) in case["bw"]) + ")"
    p = case["partner"]
    partner = "None" if p is None else (
        "(Some (" + G.cdims(p["dims"]) + ", " + C.clist(G.cq(v) for v in p["vals"]) + "))")
    if "err" in obs:
        impl = f"(Err {C.cekind(obs['err'])})"
    else:
        impl = "(Ok (" + G.cdims(obs["dims"]) + ", " + C.clist(G.cq(Fraction(v)) for v in obs["vals"]) + "))"
    return ("{| c05_ctor := " + ctor + "; c05_facedim := \"face\"; c05_conn := " + coq_conn(case["conn"]) +
            "; c05_order := " + C.clist(C.cstr(a) for a in obs["order"]) +
            "; c05_vector := " + C.copt(case["vector"], C.cstr) +
            "; c05_dims := " + G.cdims(case["dims"]) + "; c05_vals := " + C.clist(G.cq(v) for v in case["vals"]) +
            f"; c05_partner := {partner}; c05_bw := {bw}" +
            f"; c05_boundary := {G.ckw(case['boundary'], G.cbw)}; c05_fill := {G.ckw(case['fill'], G.cq)}" +
            "; c05_out_order := " + C.clist(C.cstr(d) for d in obs["out_order"]) +
            f"; c05_impl := {impl} |}}")


def distribution(cases, obs):
    from collections import Counter
    c = Counter()
    for case, o in zip(cases, obs):
        c["vector" if case["vector"] else "scalar"] += 1
        c["faces=" + str(len(case["conn"]))] += 1
        c["N=" + str(case["N"])] += 1
        for f, fal in case["conn"]:
            for a, (l, r) in fal:
                for side, x in (("L", l), ("R", r)):
                    if x is not None:
                        c[f"kind:{side}{'swap' if x[1] != a else 'same'}{'rev' if x[2] else 'nor'}"] += 1
        c["err:" + o["err"] if "err" in o else "ok"] += 1
    return dict(c)


def extra_checks(rng, tier, notes):
    """Padding moves values, it does not look at them: with one cell of the input (or of the partner
    component) missing (NaN), the padded result is missing exactly where the result for the complete
    input holds that cell's value (the generated values are pairwise distinct, also up to sign and
    across the two components, and distinct from every fill value)."""
    import numpy as np
    from xgcm.padding import pad
    out = []
    n = 40 if tier == "quick" else 500
    done = 0
    for _ in range(n):
        case = gen_case(rng)
        if case["bw"] is None:
            continue
        ds, g, fc = build(case)
        bw = {a: tuple(w) for a, w in case["bw"]}

        def run(vals, pvals):
            kwargs = {}
            da = mkda(case["dims"], vals)
            if case["vector"]:
                p = case["partner"]
                kwargs["other_component"] = {p["axis"]: mkda(p["dims"], pvals)}
                data = {case["vector"]: da}
            else:
                data = da
            r = pad(data, g, boundary_width=bw, boundary=case["boundary"], fill_value=case["fill"], **kwargs)
            if isinstance(r, dict):
                [r] = list(r.values())
            return r.transpose(*sorted(r.dims)).values
        vals = [float(v) for v in case["vals"]]
        pvals = [float(v) for v in case["partner"]["vals"]] if case["partner"] else None
        in_partner = bool(case["partner"]) and rng.random() < 0.4
        src = pvals if in_partner else vals
        i = rng.randrange(len(src))
        v = src[i]
        try:
            clean = run(vals, pvals)
            holed = list(src)
            holed[i] = float("nan")
            got = run(vals if in_partner else holed, holed if in_partner else pvals)
        except Exception as e:
            continue            # refusals are the business of the main stream
        done += 1
        expect_nan = (clean == v) | (clean == -v)
        ok = got.shape == clean.shape and np.array_equal(np.isnan(got), expect_nan) and \
            np.array_equal(got[~expect_nan], clean[~expect_nan])
        if not ok:
            out.append(({**case, "missing": {"component": "partner" if in_partner else "data", "index": i}},
                        {"complete": clean.tolist(), "with_missing": [None if np.isnan(x) else x for x in got.ravel().tolist()]},
                        "padding across face links treats a missing value differently from the value it replaces"))
    notes.append(f"{done} padded arrays re-padded with one input cell missing: the missing cells are exactly the images of that cell")
    return out
