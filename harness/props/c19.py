"""C19 -- outputs are labelled with the grid's coordinates for the new position."""
from __future__ import annotations

from .. import common as C
from . import c02 as G

ID = "C19"
PROPERTY_FILE = "Properties/C19.v"
PROOF_TARGETS = ["Properties/C19.vo"]
EVAL_TARGETS = ["Corr/Eval_C19.vo"]
TIE_LEMMAS = ["Tie_gridops", "Tie_cumsum"]
IMPORTS = ("From Coq Require Import List Bool ZArith QArith String.\n"
           "From XV Require Import Base.Res Base.Assoc Base.Seq1D Base.Tensor Model.Axis Model.GridCtor "
           "Model.Coords Corr.Eval_C19.")
CASE_TYPE = "case19"
RUN_FN = "run19"
SCOPE = "nat_scope"
SHARD = 150
RULE = ("grid datasets with 1-3 axes, random position sets, dimension coordinates on every / some / no dimension, "
        "plus 0-D, 1-D (non-index) and 2-D coordinates on random mixes of positions and an extra non-grid "
        "dimension, every coordinate with its own attributes; diff/interp/min/max/cumsum over 1-2 axes for all 8 "
        "shifts with padded and unpadded paths x keep_coords true/false x input carrying all fitting dataset "
        "coordinates, only some, or none x named/anonymous input x dim orders. Observed: result dims, name, and "
        "for every coordinate its name, dims and WHICH object it is (Variable.identical to the dataset's: values "
        "and attributes). Distinct = canonical input hash; non-trivial = the dataset has a coordinate that fits "
        "the result but not the input, or the other way round.")

OPS = ["diff", "interp", "min", "max", "cumsum"]
SHIFTS = [("center", "left"), ("center", "right"), ("center", "inner"), ("center", "outer"),
          ("left", "center"), ("right", "center"), ("inner", "center"), ("outer", "center")]


def nontrivial(case, obs):
    if "out" not in obs:
        return False
    ind = {d for d, _ in case["dims"]}
    outd = set(obs["out"]["dims"])
    fit_in = {c["name"] for c in case["dscoords"] if set(c["dims"]) <= ind}
    fit_out = {c["name"] for c in case["dscoords"] if set(c["dims"]) <= outd}
    return fit_in != fit_out


def describe(case, obs):
    return (f"ds coords {[(c['name'], c['dims']) for c in case['dscoords']]}; {case['func']}(dims={case['dims']}, "
            f"axis={case['axes']}, to={case['to']}, keep_coords={case['keep']}, input coords={case['in_coords']}, "
            f"name={case['name']}) -> {str(obs)[:500]}")


def generate(rng, tier):
    n = 700 if tier == "quick" else 6000
    cases = []
    k = 0
    while len(cases) < n:
        naxes = rng.choice([1, 2, 2, 3])
        axes = ["X", "Y", "Z"][:naxes]
        N = {a: rng.randint(3, 4) for a in axes}
        coords = []
        chosen = {}
        for a in axes:
            frm, to = SHIFTS[k % 8]
            k += 1
            ps = list({"center", frm, to} | {p for p in G.POS[1:] if rng.random() < 0.3})
            rng.shuffle(ps)
            coords.append([a, [[p, f"{a.lower()}_{p[0]}"] for p in ps]])
            chosen[a] = (frm, to)
        ctor = {"coords": coords, "N": N, "periodic": rng.choice([True, False]),
                "boundary": G.kwval(rng, axes, G.WORDS), "fill": G.kwval(rng, axes, [0, 3])}
        sizes = {d: G.plen(p, N[a]) for a, cs in coords for p, d in cs}
        sizes["t"] = 2
        # a quarter of the grids are cut into faces glued in a ring along the first axis (so that
        # face 0 has a left-hand neighbour too)
        faces = rng.choice([2, 3]) if rng.random() < 0.25 else 0
        if faces:
            sizes["face"] = faces
        alld = [d for d in sizes if d != "face"]       # the face dimension keeps its plain index 0..n-1
        mode = rng.random()
        dimc = [d for d in alld if (mode < 0.6 or (mode < 0.85 and rng.random() < 0.5))]
        dscoords = [{"name": d, "dims": [d]} for d in dimc]
        dscoords.append({"name": "ref_time", "dims": []}) if rng.random() < 0.5 else None
        for d in alld:
            if rng.random() < 0.3:
                dscoords.append({"name": f"aux_{d}", "dims": [d]})
        for _ in range(rng.randint(0, 3)):
            ds2 = rng.sample(alld, 2)
            if any(c["dims"] == ds2 for c in dscoords):
                continue
            dscoords.append({"name": "geo_" + "_".join(ds2), "dims": ds2})
        dscoords = [c for c in dscoords if c is not None]
        op_axes = [a for a in axes if rng.random() < 0.7] or [axes[0]]
        op_axes = op_axes[:2]
        rng.shuffle(op_axes)
        dims = []
        for a, cs in coords:
            if a in op_axes or rng.random() < 0.6:
                dims.append([dict(cs)[chosen[a][0]], sizes[dict(cs)[chosen[a][0]]]])
        if rng.random() < 0.5:
            dims.append(["t", 2])
        if faces:
            dims.append(["face", faces])
        rng.shuffle(dims)
        to = {a: chosen[a][1] for a in axes} if rng.random() < 0.7 else None
        dn = {d for d, _ in dims}
        fitting = [c["name"] for c in dscoords if set(c["dims"]) <= dn]
        r = rng.random()
        in_coords = fitting if r < 0.45 else [] if r < 0.75 else [c for c in fitting if rng.random() < 0.5]
        cases.append({"ctor": ctor, "sizes": sizes, "dscoords": dscoords, "dims": dims, "func": rng.choice(OPS),
                      "axes": op_axes, "to": to, "keep": rng.random() < 0.6, "in_coords": in_coords,
                      "name": rng.choice(["temp", "u", None]),
                      # metric weighting is an option of the same operations: it must not change a label
                      "weighted": (rng.random() < 0.25 and not faces),
                      # the same operation reached through the Grid method, through Grid.apply_as_grid_ufunc,
                      # through the module-level apply_as_grid_ufunc, or by calling the GridUFunc object
                      "via": rng.choice(["method", "method", "grid_apply", "apply", "gridufunc"]),
                      "boundary": G.kwval(rng, axes, G.WORDS), "faces": faces})
    return cases


def build(case):
    import numpy as np
    import xarray as xr
    from xgcm import Grid
    c = case["ctor"]
    sizes = case["sizes"]
    ds = xr.Dataset({f"v_{d}": ((d,), np.zeros(n)) for d, n in sizes.items()})
    cvars = {}
    for i, cv in enumerate(case["dscoords"]):
        shape = [sizes[d] for d in cv["dims"]]
        vals = (np.arange(int(np.prod(shape)) if shape else 1, dtype=float) * (i + 2) + 0.25 * i).reshape(shape)
        cvars[cv["name"]] = (tuple(cv["dims"]), vals if shape else float(i + 7), {"units": f"u{i}", "id": i})
    ds = ds.assign_coords({k: xr.Variable(*v) for k, v in cvars.items()})
    kw = {}
    if case.get("faces"):
        n = case["faces"]
        a0 = c["coords"][0][0]
        kw["face_connections"] = {"face": {f: {a0: (((f - 1) % n, a0, False), ((f + 1) % n, a0, False))}
                                           for f in range(n)}}
    if case.get("weighted"):
        # a positive metric for every axis at every one of its positions (data variables, not coordinates)
        mets = {}
        for a, cs in c["coords"]:
            for p, d in cs:
                ds[f"m_{d}"] = ((d,), np.arange(sizes[d]) + 1.0)
                mets.setdefault((a,), []).append(f"m_{d}")
        kw["metrics"] = mets
    g = Grid(ds, coords={a: {p: d for p, d in cs} for a, cs in c["coords"]}, periodic=c["periodic"],
             boundary=c["boundary"], fill_value=c["fill"], autoparse_metadata=False, **kw)
    return ds, g


def run_impl(case):
    import warnings
    import numpy as np
    import xarray as xr
    ds, g = build(case)
    shape = [l for _, l in case["dims"]]
    size = int(np.prod(shape))
    da = xr.DataArray(((np.arange(size) * 7) % 11 - 3.0).reshape(shape), dims=[d for d, _ in case["dims"]],
                      name=case["name"])
    da = da.assign_coords({c: ds[c].variable for c in case["in_coords"]})
    kw = {"keep_coords": case["keep"]}
    if case["to"] is not None:
        kw["to"] = case["to"]
    if case["boundary"] is not None:
        kw["boundary"] = case["boundary"]
    if case.get("weighted"):
        kw["metric_weighted"] = tuple(case["axes"])
    axis = case["axes"] if len(case["axes"]) > 1 else case["axes"][0]
    names = [c["name"] for c in case["dscoords"]]
    def call(x):
        via = case.get("via", "method")
        if via == "method" or case["func"] == "cumsum" or len(case["axes"]) != 1 or case.get("weighted") \
                or case.get("faces"):
            return getattr(g, case["func"])(x, axis, **kw)
        # one axis, a predefined stencil: the same grid ufunc by another door
        from xgcm import gridops
        from xgcm.grid_ufunc import apply_as_grid_ufunc
        a = case["axes"][0]
        ax = g.axes[a]
        frm = [p for p, d in ax.coords.items() if d in x.dims][0]
        to = (case["to"] or {}).get(a) or ax._default_shifts[frm]
        gu = getattr(gridops, f"{case['func']}_{frm}_to_{to}")
        opts = dict(axis=[(a,)], keep_coords=case["keep"])
        if case["boundary"] is not None:
            opts["boundary"] = case["boundary"]
        sig = str(gu.signature)
        more = dict(signature=sig, boundary_width=gu.boundary_width, **opts)
        if via == "gridufunc":
            out = gu(g, x, **opts)
        elif via == "grid_apply":
            out = g.apply_as_grid_ufunc(gu.ufunc, x, **more)
        else:
            out = apply_as_grid_ufunc(gu.ufunc, x, grid=g, **more)
        # (a bare grid ufunc leaves the core dimension last; the labels are compared in the input's order)
        new = ax.coords[to]
        return out.transpose(*[new if d == ax.coords[frm] else d for d in x.dims])
    try:
        with warnings.catch_warnings():
            warnings.simplefilter("ignore")
            r = call(da)
            # the values must not depend on the labels the input carried
            r0 = call(da.reset_coords(drop=True).drop_vars([d for d in da.dims if d in da.coords]))
    except Exception as e:
        return {"err": type(e).__name__, "msg": str(e)[:200]}
    cs = []
    for cn in r.coords:
        cn = str(cn)
        cdims = list(map(str, r[cn].dims))
        # an N-d coordinate comes back with its dimensions in the result's order: the same labelled
        # object; it is compared (values, attributes) after transposing back, and reported in the
        # dataset's dimension order
        if cn in names and set(cdims) == set(ds[cn].dims) and \
                r[cn].variable.transpose(*ds[cn].dims).identical(ds[cn].variable):
            ident = names.index(cn)
            cdims = list(map(str, ds[cn].dims))
        else:
            ident = 999
        cs.append([cn, cdims, ident])
    shifts = []
    for a in case["axes"]:
        ax = g.axes[a]
        din = [d for d in da.dims if d in ax.coords.values()][0]
        dout = [d for d in r.dims if d in ax.coords.values()][0]
        shifts.append([din, dout])
    return {"out": {"dims": list(map(str, r.dims)), "coords": sorted(cs), "name": r.name},
            "shifts": shifts, "values_label_free": bool(np.array_equal(r.values, r0.values, equal_nan=True))}


def clabels(dims, coords, name):
    return ("{| l_dims := " + C.clist(C.cstr(d) for d in dims) + "; l_coords := " +
            C.clist("{| cv_name := " + C.cstr(n) + "; cv_dims := " + C.clist(C.cstr(d) for d in ds) +
                    f"; cv_id := {C.cnat(i)} |}}" for n, ds, i in coords) +
            f"; l_name := {C.copt(name, C.cstr)} |}}")


def coq_case(case, obs):
    names = [c["name"] for c in case["dscoords"]]
    dsc = [(c["name"], c["dims"], i) for i, c in enumerate(case["dscoords"])]
    inc = [(n, case["dscoords"][names.index(n)]["dims"], names.index(n)) for n in case["in_coords"]]
    if "out" in obs:
        o = obs["out"]
        out = "(Some " + clabels(o["dims"], o["coords"], o["name"]) + ")"
        shifts = C.clist(f"({C.cstr(a)}, {C.cstr(b)})" for a, b in obs["shifts"])
    else:
        out, shifts = "None", "[]"
    return ("{| c19_ctor := " + G.coq_ctor(case["ctor"]) +
            "; c19_dscoords := " + C.clist("{| cv_name := " + C.cstr(n) + "; cv_dims := " +
                                           C.clist(C.cstr(d) for d in ds) + f"; cv_id := {C.cnat(i)} |}}"
                                           for n, ds, i in dsc) +
            f"; c19_keep := {C.cbool(case['keep'])}; c19_func := {C.cstr(case['func'])}" +
            "; c19_axes := " + C.clist(C.cstr(a) for a in case["axes"]) +
            f"; c19_to := {G.ckw(case['to'], G.cpos)}" +
            "; c19_in := " + clabels([d for d, _ in case["dims"]], inc, case["name"]) +
            f"; c19_shifts := {shifts}; c19_out := {out}; c19_values_label_free := " +
            C.cbool(obs.get("values_label_free", True)) + " |}")


def extra_checks(rng, tier, notes):
    return []


def distribution(cases, obs):
    from collections import Counter
    c = Counter()
    for case, o in zip(cases, obs):
        c["op:" + case["func"]] += 1
        c["keep:" + str(case["keep"])] += 1
        c["in_coords:" + ("all" if case["in_coords"] and len(case["in_coords"]) == len(
            [x for x in case["dscoords"] if set(x["dims"]) <= {d for d, _ in case["dims"]}]) else
            "none" if not case["in_coords"] else "some")] += 1
        c["err:" + o["err"] if "err" in o else "ok"] += 1
        if "out" in o and not o.get("values_label_free", True):
            c["values-depend-on-labels"] += 1
    return dict(c)


def extra_checks(rng, tier, notes):
    """The name of the input is kept also for a vector component on a face-connected grid, whatever links the
    faces have (across an axis-swapping link the halo comes from the PARTNER component, which has another
    name)."""
    import warnings
    import numpy as np
    from . import c05 as K5
    out = []
    n = 60 if tier == "quick" else 600
    done = 0
    for _ in range(n):
        case = K5.gen_case(rng, vector=True)
        if not case["vector"]:
            continue
        try:
            ds, g, fc = K5.build(case)
        except Exception:
            continue
        p = case["partner"]
        da = K5.mkda(case["dims"], case["vals"]).rename("u_comp")
        pa = K5.mkda(p["dims"], p["vals"]).rename("v_comp")
        ax = case["vector"]
        func = rng.choice(["interp", "diff", "min", "max"])
        rec = {"conn": case["conn"], "func": func, "axis": ax, "dims": case["dims"], "labels": case.get("labels")}
        try:
            with warnings.catch_warnings():
                warnings.simplefilter("ignore")
                r = getattr(g, func)({ax: da}, ax, other_component={p["axis"]: pa}, boundary="fill")
        except Exception:
            continue            # refusals are C20's and C05's business
        done += 1
        if r.name != "u_comp":
            out.append((rec, {"name": r.name}, f"{func} of the vector component 'u_comp' along {ax} on a face-connected "
                                               f"grid returns an array named {r.name!r}"))
    notes.append(f"{done} vector-component operations on face-connected grids: the result keeps the input's name")
    return out


_extra_checks_vectors = extra_checks


def extra_checks(rng, tier, notes):
    out = _extra_checks_vectors(rng, tier, notes)
    out.extend(selection_labels(rng, tier, notes))
    return out


def selection_labels(rng, tier, notes):
    """A dimension that belongs to no axis keeps the labels the INPUT carried: the data may be a selection
    (of time steps, of ensemble members) of what the grid's dataset holds, in any order."""
    import warnings
    import numpy as np
    import xarray as xr
    from xgcm import Grid
    out = []
    n = 40 if tier == "quick" else 400
    for _ in range(n):
        nt, N = rng.randint(3, 6), rng.randint(2, 4)
        ds = xr.Dataset(coords={"xc": np.arange(N) + 0.5, "xl": np.arange(N) * 1.0, "time": np.arange(nt) * 10.0,
                                "member": list("abcdef")[:nt]})
        ds = ds.assign_coords(lon=("xc", np.arange(N) * 2.0), tlab=("time", np.arange(nt) + 100.0))
        ds["dx"] = ("xc", np.ones(N))
        ds["dxl"] = ("xl", np.ones(N))
        g = Grid(ds, coords={"X": {"center": "xc", "left": "xl"}}, periodic=rng.random() < 0.5,
                 metrics={("X",): ["dx", "dxl"]}, autoparse_metadata=False)
        dim = rng.choice(["time", "member"])
        sel = rng.sample(range(nt), rng.randint(1, nt - 1))
        if rng.random() < 0.5:
            sel = sorted(sel)
        full = xr.DataArray(np.arange(nt * N, dtype=float).reshape(nt, N) ** 1.1, dims=[dim, "xc"],
                            coords={dim: ds[dim], "xc": ds.xc}, name="temp")
        da = full.isel({dim: sel})
        func = rng.choice(["diff", "interp", "min", "max", "cumsum", "derivative", "integrate"])
        keep = rng.random() < 0.5
        rec = {"dim": dim, "selection": sel, "func": func, "keep_coords": keep, "nt": nt}
        try:
            with warnings.catch_warnings():
                warnings.simplefilter("ignore")
                kw = {} if func in ("integrate",) else {"keep_coords": keep} if func != "derivative" else {}
                r = getattr(g, func)(da, "X", **kw)
            ok = dim in r.coords and np.array_equal(r[dim].values, da[dim].values) and r.sizes[dim] == len(sel)
            obs = {"coords": sorted(map(str, r.coords)), dim: r[dim].values.tolist() if dim in r.coords else None}
        except Exception as e:
            ok, obs = False, {"err": f"{type(e).__name__}: {e}"[:200]}
        if not ok:
            out.append((rec, obs, f"{func} of a selection along '{dim}' (a dimension of no axis) does not keep the "
                                  "selection's own labels"))
    notes.append(f"{n} operations on selections along a dimension of no axis: the input's labels are kept")
    return out
