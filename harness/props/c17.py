"""C17 -- only reciprocal face-connection tables are accepted."""
from __future__ import annotations

import itertools

from .. import common as C

ID = "C17"
PROPERTY_FILE = "Properties/C17.v"
PROOF_TARGETS = ["Properties/C17.vo"]
EVAL_TARGETS = ["Corr/Eval_C17.vo"]
IMPORTS = "From Coq Require Import List Bool ZArith String.\nFrom XV Require Import Base.Res Base.Assoc Model.FaceConn Spec.S17 Corr.Eval_C17."
CASE_TYPE = "case17"
RUN_FN = "run17"
RULE = ("tables over named faces/axes: all 625 tables on 2 faces x 1 axis (exhaustive), random reciprocal "
        "tables up to 6 faces with self-links and their single/double edits, plus a malformed stream "
        "(two face dims, face dim missing, unknown axis/face). Distinct = distinct canonical input; "
        "non-trivial = the table holds at least one link.")
EXHAUSTIVE = {"quick": False, "thorough": False}
TRUSTED_EXTRA = ["Python dict literal tables have unique keys (NoDup) -- the model looks up the first key"]


def links_of(case):
    for _, tbl in case["dict"]:
        for _, fal in tbl:
            for _, (l, r) in fal:
                for x in (l, r):
                    if x is not None:
                        yield x


def nontrivial(case, obs):
    return any(True for _ in links_of(case))


def describe(case, obs):
    return f"face_connections={case['dict']} axes={case['axes']} faces={case['faces']} -> impl {obs}"


def mk(tbl, axes=("X", "Y"), nfaces=2, facedim="face", dsdims=None, extra_dict=None, labels=None):
    d = [[facedim, tbl]] + (extra_dict or [])
    return {"dict": d, "dsdims": dsdims if dsdims is not None else ["face", "y", "x"],
            "faces": list(labels) if labels is not None else list(range(nfaces)), "axes": list(axes),
            "labelled": labels is not None}


def relabel(tbl, labels):
    """the table with face i called labels[i] (keys and link targets)"""
    return [[labels[f], [[a, [None if l is None else [labels[l[0]] if 0 <= l[0] < len(labels) else l[0], l[1], l[2]]
                              for l in lr]] for a, lr in fal]] for f, fal in tbl]


def all_2face_1axis():
    opts = [None] + [[f, "X", r] for f in (0, 1) for r in (False, True)]
    for a, b, c, d in itertools.product(opts, repeat=4):
        yield mk([[0, [["X", [a, b]]]], [1, [["X", [c, d]]]]])


def random_reciprocal(rng, nfaces, axes=("X", "Y")):
    """Pair up free edge slots at random (self-links allowed); returns a table."""
    slots = [(f, a, s) for f in range(nfaces) for a in axes for s in (0, 1)]
    rng.shuffle(slots)
    tbl = {f: {a: [None, None] for a in axes} for f in range(nfaces)}
    free = list(slots)
    nlinks = rng.randint(1, max(1, len(slots) // 2))
    for _ in range(nlinks):
        if len(free) < 2:
            break
        f, a, s = free.pop()
        # choose partner slot
        j = rng.randrange(len(free))
        g, b, t = free[j]
        rev = (s == t)          # same side on both ends = reversed link
        free.pop(j)
        tbl[f][a][s] = [g, b, rev]
        tbl[g][b][t] = [f, a, rev]
    out = []
    faces = list(range(nfaces))
    rng.shuffle(faces)
    for f in faces:
        al = [[a, tbl[f][a]] for a in axes if tbl[f][a] != [None, None] or rng.random() < 0.5]
        out.append([f, al])
    return out


def edits(rng, tbl, nfaces, axes):
    """one random edit of a table"""
    import copy
    t = copy.deepcopy(tbl)
    sites = [(i, j, s) for i, (_, fal) in enumerate(t) for j, (_, _) in enumerate(fal) for s in (0, 1)]
    if not sites:
        return t
    i, j, s = rng.choice(sites)
    cur = t[i][1][j][1][s]
    kind = rng.randrange(6)
    if cur is None or kind == 0:
        t[i][1][j][1][s] = None if cur is not None and rng.random() < 0.5 else \
            [rng.randrange(nfaces), rng.choice(list(axes)), rng.random() < 0.5]
    elif kind == 1:
        cur[0] = rng.randrange(nfaces + 1)          # may name a face that does not exist
    elif kind == 2:
        cur[1] = rng.choice(list(axes) + ["Z"])     # may name an axis that does not exist
    elif kind == 3:
        cur[2] = not cur[2]
    elif kind == 4:
        t[i][1][j][1] = [t[i][1][j][1][1], t[i][1][j][1][0]]   # swap sides
    else:
        t[i][1][j][0] = rng.choice(list(axes) + ["Z"])         # rename the axis key
        # keep keys unique
        ks = [k for k, _ in t[i][1]]
        if len(set(ks)) != len(ks):
            return tbl
    return t


def generate(rng, tier):
    cases = list(all_2face_1axis())
    n_rand = 150 if tier == "quick" else 3000
    for _ in range(n_rand):
        nf = rng.randint(1, 6)
        axes = ("X", "Y") if rng.random() < 0.8 else ("X", "Y", "Z")
        t = random_reciprocal(rng, nf, axes[:2])
        cases.append(mk(t, axes=axes, nfaces=nf))
        e1 = edits(rng, t, nf, axes[:2])
        cases.append(mk(e1, axes=axes, nfaces=nf))
        cases.append(mk(edits(rng, e1, nf, axes[:2]), axes=axes, nfaces=nf))
    # datasets whose faces carry other labels than 0..n-1 (1-based tiles, a subset of a larger set, any
    # order): a face exists when the dataset's face coordinate holds its label
    for _ in range(n_rand // 3):
        nf = rng.randint(1, 4)
        labels = rng.sample(range(0, 8), nf)
        t = random_reciprocal(rng, nf)
        cases.append(mk(relabel(t, labels), labels=labels))                 # reciprocal over the labels
        cases.append(mk(t, labels=labels))                                  # the same, naming positions
        cases.append(mk(relabel(edits(rng, t, nf, ("X", "Y")), labels), labels=labels))
    # malformed stream
    base = random_reciprocal(rng, 2)
    cases.append(mk(base, extra_dict=[["tile", base]]))                    # two face dimensions
    cases.append(mk(base, facedim="tile"))                                 # face dim not in dataset
    cases.append(mk(base, dsdims=["y", "x"]))                              # dataset lacks 'face'
    cases.append(mk([[0, [["Q", [None, None]]]], [1, []]]))                 # axis key unknown, no links
    cases.append(mk([[0, [["X", [None, [2, "X", False]]]]], [1, []]]))      # names missing face
    cases.append(mk([[0, [["X", [None, [1, "X", False]]]]]]))               # neighbour has no table
    cases.append(mk([[0, []], [1, []]]))
    # malformed x link-free tables: the refusal must not depend on a link being inspected
    nolink = [[[0, [["X", [None, None]]]], [1, [["X", [None, None]]]]], [], [[0, []]],
              [[0, [["X", [None, None]], ["Y", [None, None]]]]]]
    for t in nolink + [random_reciprocal(rng, 2), random_reciprocal(rng, 3)]:
        nf = max([f for f, _ in t] + [1]) + 1
        cases.append(mk(t, nfaces=nf, facedim="tile"))
        cases.append(mk(t, nfaces=nf, dsdims=["y", "x"]))
        cases.append(mk(t, nfaces=nf, extra_dict=[["tile", t]]))
        cases.append(mk(t, nfaces=nf, axes=("X",)))
        cases.append(mk(t, nfaces=nf))
    if tier == "thorough":
        # all single and double edits of one consistent 2 faces x 2 axes table, exhaustively
        opts = [None] + [[f, a, r] for f in (0, 1) for a in ("X", "Y") for r in (False, True)]
        good = {0: {"X": [None, [1, "X", False]], "Y": [None, [1, "Y", True]]},
                1: {"X": [[0, "X", False], None], "Y": [None, [0, "Y", True]]}}
        slots = [(f, a, s) for f in (0, 1) for a in ("X", "Y") for s in (0, 1)]
        import copy
        for s1 in slots:
            for o1 in opts:
                t1 = copy.deepcopy(good)
                t1[s1[0]][s1[1]][s1[2]] = o1
                cases.append(mk([[f, [[a, t1[f][a]] for a in ("X", "Y")]] for f in (0, 1)]))
                for s2 in slots:
                    if s2 <= s1:
                        continue
                    for o2 in opts:
                        t2 = copy.deepcopy(t1)
                        t2[s2[0]][s2[1]][s2[2]] = o2
                        cases.append(mk([[f, [[a, t2[f][a]] for a in ("X", "Y")]] for f in (0, 1)]))
    return cases


def run_impl(case):
    import numpy as np
    import xarray as xr
    import xgcm
    n = len(case["faces"])
    sizes = {"face": n, "y": 2, "x": 2}
    dims = [d for d in case["dsdims"]]
    ds = xr.Dataset({"v": (dims, np.zeros([sizes.get(d, 2) for d in dims]))})
    if case.get("labelled") and "face" in ds.dims:
        ds = ds.assign_coords(face=("face", list(case["faces"])))
    coords = {}
    for ax in case["axes"]:
        d = ax.lower()
        if d not in ds.dims:
            ds = ds.assign({f"v{d}": ((d,), np.zeros(2))})
        coords[ax] = {"center": d}
    fc = {}
    for facedim, tbl in case["dict"]:
        fc[facedim] = {f: {a: (tuple(l) if l is not None else None, tuple(r) if r is not None else None)
                           for a, (l, r) in fal} for f, fal in tbl}
    try:
        xgcm.Grid(ds, coords=coords, face_connections=fc, autoparse_metadata=False)
        return {"ok": True, "err": None}
    except Exception as e:
        return {"ok": False, "err": type(e).__name__}


def _link(l):
    return C.copt(l, lambda v: f"({C.cZ(v[0])}, {C.cstr(v[1])}, {C.cbool(v[2])})")


def coq_case(case, obs):
    def tab(tbl):
        return C.clist(
            f"({C.cZ(f)}, " + C.clist(f"({C.cstr(a)}, ({_link(l)}, {_link(r)}))" for a, (l, r) in fal) + ")"
            for f, fal in tbl)
    inp = ("{| fc_dict := " + C.clist(f"({C.cstr(fd)}, {tab(t)})" for fd, t in case["dict"]) +
           "; fc_dsdims := " + C.clist(C.cstr(d) for d in case["dsdims"]) +
           "; fc_faces := " + C.clist(C.cZ(f) for f in case["faces"]) +
           "; fc_axes := " + C.clist(C.cstr(a) for a in case["axes"]) + " |}")
    return ("{| c17_inp := " + inp + f"; c17_impl_ok := {C.cbool(obs['ok'])}; c17_impl_err := " +
            C.copt(obs["err"], C.cekind) + " |}")


def distribution(cases, obs):
    from collections import Counter
    c = Counter()
    for case, o in zip(cases, obs):
        c["accepted" if o["ok"] else "refused:" + str(o["err"])] += 1
        c[f"faces={len(case['faces'])}"] += 1
        for l in links_of(case):
            c["links_reversed" if l[2] else "links_normal"] += 1
    return dict(c)
