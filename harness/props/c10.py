"""C10 -- the metric applied is the one registered for the array's position and axes."""
from __future__ import annotations

import itertools

from .. import common as C

ID = "C10"
PROPERTY_FILE = "Properties/C10.v"
PROOF_TARGETS = ["Properties/C10.vo"]
EVAL_TARGETS = ["Corr/Eval_C10.vo"]
IMPORTS = ("From Coq Require Import List Bool ZArith String.\n"
           "From XV Require Import Base.Res Base.Assoc Model.Registry Model.Metrics Spec.S10 Corr.Eval_C10.")
CASE_TYPE = "case10"
RUN_FN = "run10"
SCOPE = "nat_scope"
SHARD = 150
RULE = ("a 3-axis grid (X: center/left/outer, Y: center/left, Z: center); registries built by random histories "
        "over a pool of 18 non-uniform positive integer metrics for {X},{Y},{Z},{X,Y},{X,Z},{Y,Z},{X,Y,Z} at "
        "several positions (complete, partial, or only at other positions); arrays at every position with an "
        "optional extra dimension; axes requested as str / tuple in random order. The metric returned is decoded "
        "into the set of registered variables whose product (interpolated to the array's position where needed) "
        "it equals. Plus implementation-level relations: integrate, average, derivative, metric_weighted. "
        "Non-trivial = the registry offers more than one candidate for the query.")

DIMS = {"dx_c": ["xc"], "dx_c2": ["xc"], "dx_l": ["xl"], "dx_o": ["xo"], "dy_c": ["yc"], "dy_l": ["yl"], "dz_c": ["zc"],
        "a_cc": ["yc", "xc"], "a_lc": ["yc", "xl"], "a_cl": ["yl", "xc"], "a_ll": ["yl", "xl"],
        "v_xz": ["zc", "xc"], "v_yz": ["zc", "yc"], "vol": ["zc", "yc", "xc"],
        # metrics of one axis that also vary along another (dx depends on y, ...)
        "dx_cy": ["yc", "xc"], "dx_ly": ["yl", "xl"], "dy_cx": ["yc", "xc"], "dz_cy": ["zc", "yc"]}
KEY = {"dx_c": ["X"], "dx_c2": ["X"], "dx_l": ["X"], "dx_o": ["X"], "dy_c": ["Y"], "dy_l": ["Y"], "dz_c": ["Z"],
       "a_cc": ["X", "Y"], "a_lc": ["X", "Y"], "a_cl": ["X", "Y"], "a_ll": ["X", "Y"],
       "v_xz": ["X", "Z"], "v_yz": ["Y", "Z"], "vol": ["X", "Y", "Z"],
       "dx_cy": ["X"], "dx_ly": ["X"], "dy_cx": ["Y"], "dz_cy": ["Z"]}
SIZES = {"xc": 3, "xl": 3, "xo": 4, "yc": 2, "yl": 2, "zc": 2, "t": 2}
AXDIMS = {"X": ["xc", "xl", "xo"], "Y": ["yc", "yl"], "Z": ["zc"]}


def nontrivial(case, obs):
    names = [n for c in case["history"] for n in c["names"]]
    axes = set(case["axes"] if isinstance(case["axes"], list) else [case["axes"]])
    return len([n for n in names if set(KEY[n]) <= axes]) > 1


def describe(case, obs):
    return f"{case} -> impl {str(obs)[:300]}"


def systematic():
    """A fixed block at every seed: one axis set registered through the constructor under two spellings of
    its key (("X","Y") and ("Y","X")), queried from every position."""
    out = []
    hs = [[("a_cc", ["X", "Y"]), ("a_ll", ["Y", "X"])], [("a_ll", ["Y", "X"]), ("a_cc", ["X", "Y"])],
          [("a_cc", ["Y", "X"]), ("a_lc", ["X", "Y"])], [("v_xz", ["X", "Z"]), ("dz_c", ["Z"]), ("dx_l", ["X"]), ("dx_c", ["X"])]]
    for h in hs:
        hist = [{"key": k, "names": [n], "overwrite": True} for n, k in h]
        for adims in (["yc", "xc"], ["yl", "xl"], ["yc", "xl"], ["xc", "yl"], ["zc", "yc", "xc"], ["zc", "xl"]):
            for axes in (["X", "Y"], ["Y", "X"], ["X"], ["X", "Z"]):
                if all(any(d in AXDIMS[a] for d in adims) for a in axes):
                    out.append({"history": hist, "adims": adims, "axes": axes, "n_ctor": len(hist)})
    return out


def generate(rng, tier):
    cases = systematic()
    n = 400 if tier == "quick" else 3000
    for _ in range(n):
        k = rng.randint(1, 7)
        names = rng.sample(list(DIMS), k)
        history = []
        for nm in names:
            key = list(KEY[nm])
            if rng.random() < 0.3:
                key.reverse()
            history.append({"key": key, "names": [nm], "overwrite": True})
        if rng.random() < 0.3:
            # a batch that replaces a registered variable and adds one at another position in one call
            xs = [h for h in history if h["key"] in (["X"],)]
            if xs:
                first = xs[0]["names"][0]
                repl = {"dx_c": "dx_c2", "dx_c2": "dx_c"}.get(first)
                other = rng.choice([n for n in ("dx_l", "dx_o") if n not in [x["names"][0] for x in xs]] or ["dx_l"])
                if repl:
                    history.append({"key": ["X"], "names": [repl, other], "overwrite": True})
        naxes = rng.choice([1, 1, 2, 2, 3])
        axes = rng.sample(["X", "Y", "Z"], naxes)
        adims = []
        # the array is located along every axis a registered metric varies along
        needed = {a for h in history for nm in h["names"] for a, ds_ in AXDIMS.items() if set(ds_) & set(DIMS[nm])
                  and len(DIMS[nm]) > len(KEY[nm])}
        for a in ["X", "Y", "Z"]:
            if a in axes or a in needed or rng.random() < 0.5:
                adims.append(rng.choice(AXDIMS[a]))
        if rng.random() < 0.3:
            adims.append("t")
        rng.shuffle(adims)
        ax = axes[0] if len(axes) == 1 and rng.random() < 0.4 else axes
        case = {"history": history, "adims": adims, "axes": ax}
        # how many of the first registrations are made through the constructor's `metrics` mapping (its keys
        # are tuples: ("X","Y") and ("Y","X") are two keys for one axis set)
        case["n_ctor"] = rng.randint(0, len(history)) if rng.random() < 0.5 else 0
        # queries are read-only: an earlier query for the same axes from another position changes nothing
        if rng.random() < 0.5:
            wd = []
            for a in ["X", "Y", "Z"]:
                if any(d in AXDIMS[a] for d in adims):
                    wd.append(rng.choice(AXDIMS[a]))
            case["warmup_adims"] = wd
        cases.append(case)
    return cases


def build(case):
    import numpy as np
    import xarray as xr
    from xgcm import Grid
    ds = xr.Dataset(coords={d: np.arange(n) for d, n in SIZES.items() if d != "t"})
    for k, (n, d) in enumerate(DIMS.items()):
        shape = [SIZES[x] for x in d]
        idx = np.indices(shape)
        # (not whole numbers: a quarter is added, every average and product stays exact in binary)
        val = 8.0 * (3 + 2 * k) + 4.0 * sum((j + 1) * (k + 2) * idx[j] for j in range(len(shape))) + 0.25
        ds[n] = (d, val)
    coords = {"X": {"center": "xc", "left": "xl", "outer": "xo"}, "Y": {"center": "yc", "left": "yl"},
              "Z": {"center": "zc"}}
    # the leading registrations that can be written as one constructor mapping (distinct key tuples,
    # single-variable, in order) go through the constructor
    mets, k = {}, 0
    for c in case["history"][:case.get("n_ctor", 0)]:
        if tuple(c["key"]) in mets or len(c["names"]) != 1:
            break
        mets[tuple(c["key"])] = list(c["names"])
        k += 1
    g = Grid(ds, coords=coords, periodic=False, autoparse_metadata=False, **({"metrics": mets} if mets else {}))
    for c in case["history"][k:]:
        g.set_metrics(tuple(c["key"]), list(c["names"]), overwrite=c["overwrite"])
    return ds, g


def run_impl(case):
    import warnings
    import numpy as np
    import xarray as xr
    ds, g = build(case)
    arr = xr.DataArray(np.ones([SIZES[d] for d in case["adims"]]), dims=case["adims"])
    axes = case["axes"]
    if case.get("warmup_adims"):
        with warnings.catch_warnings():
            warnings.simplefilter("ignore")
            try:
                g.get_metric(xr.DataArray(np.ones([SIZES[d] for d in case["warmup_adims"]]), dims=case["warmup_adims"]),
                             axes if isinstance(axes, str) else tuple(axes))
            except Exception:
                pass
    with warnings.catch_warnings(record=True) as w:
        warnings.simplefilter("always")
        try:
            m = g.get_metric(arr, axes if isinstance(axes, str) else tuple(axes))
        except Exception as e:
            return {"err": type(e).__name__}
        warned = any("interpolated" in str(x.message) for x in w)
    axl = [axes] if isinstance(axes, str) else axes
    regd = [n for c in case["history"] for n in c["names"] if set(KEY[n]) <= set(axl)]
    regd = list(dict.fromkeys(regd))
    cands = []
    with warnings.catch_warnings():
        warnings.simplefilter("ignore")
        interp = {}
        for n in regd:
            interp[n] = to_position(ds[n], arr.dims)
        for k in (1, 2, 3):
            for combo in itertools.combinations(regd, k):
                if any(interp[n] is None for n in combo):
                    continue
                p = 1
                for n in combo:
                    p = p * interp[n]
                if set(p.dims) == set(m.dims) and np.array_equal(p.transpose(*m.dims).values, m.values):
                    cands.append(sorted(combo, key=lambda n: -len(KEY[n])))
    return {"cands": cands, "warned": warned, "dims_ok": set(m.dims) <= set(arr.dims)}


POSOF = {"xc": "center", "xl": "left", "xo": "outer", "yc": "center", "yl": "left", "zc": "center"}
NCELLS = {"X": 3, "Y": 2, "Z": 2}


def _coords2(pos, n):
    """doubled coordinates of the points of a position on an axis of n cells"""
    return {"center": [2 * i + 1 for i in range(n)], "left": [2 * i for i in range(n)],
            "right": [2 * i + 2 for i in range(n)], "outer": [2 * i for i in range(n + 1)],
            "inner": [2 * i + 2 for i in range(n - 1)]}[pos]


def _hop(vals, axis_num, src, dst, n):
    """two-point average onto the neighbouring position, nearest value beyond the ends -- written from the
    geometry, independently of xgcm"""
    import numpy as np
    sc, dc = _coords2(src, n), _coords2(dst, n)

    def take(x):
        # the source point at doubled coordinate x, or the nearest one
        j = min(range(len(sc)), key=lambda k: (abs(sc[k] - x), k)) if x not in sc else sc.index(x)
        return np.take(vals, j, axis=axis_num)
    return np.stack([(take(x - 1) + take(x + 1)) / 2.0 for x in dc], axis=axis_num)


def to_position(v, arr_dims):
    """the registered metric v brought to the position of an array with dims arr_dims: along every axis
    where they differ, to the centre first and from there to the array's position (None if the array
    lacks a dimension of the metric's axis)"""
    import xarray as xr
    vals = v.values
    dims = list(v.dims)
    for ax, adims in AXDIMS.items():
        dm = [d for d in dims if d in adims]
        da = [d for d in arr_dims if d in adims]
        if not dm:
            continue
        if not da:
            return None
        dm, da = dm[0], da[0]
        if dm == da:
            continue
        k = dims.index(dm)
        src, dst = POSOF[dm], POSOF[da]
        if src != "center":
            vals = _hop(vals, k, src, "center", NCELLS[ax])
            src = "center"
        if dst != "center":
            vals = _hop(vals, k, "center", dst, NCELLS[ax])
        dims[k] = da
    return xr.DataArray(vals, dims=dims)


def cstrs(l):
    return C.clist(C.cstr(x) for x in l)


def coq_case(case, obs):
    axl = [case["axes"]] if isinstance(case["axes"], str) else case["axes"]
    env = ("{| re_axes := [\"X\"; \"Y\"; \"Z\"]; re_vars := " +
           C.clist(f"({C.cstr(n)}, {cstrs(d)})" for n, d in DIMS.items()) + " |}")
    hist = C.clist("{| rc_key := " + cstrs(c["key"]) + "; rc_names := " + cstrs(c["names"]) +
                   f"; rc_overwrite := {C.cbool(c['overwrite'])} |}}" for c in case["history"])
    axd = C.clist(f"({C.cstr(a)}, {cstrs(d)})" for a, d in AXDIMS.items())
    if "err" in obs:
        impl, err, warned = "None", f"(Some {C.cekind(obs['err'])})", "false"
    else:
        # a metric that does not broadcast against the array is no admissible answer
        cands = obs["cands"] if obs["dims_ok"] else []
        impl, err, warned = "(Some " + C.clist(cstrs(c) for c in cands) + ")", "None", C.cbool(obs["warned"])
    return ("{| c10_axis_dims := " + axd + f"; c10_env := {env}; c10_history := {hist}; c10_array_dims := " +
            cstrs(case["adims"]) + f"; c10_axes := {cstrs(axl)}; c10_impl := {impl}; c10_impl_err := {err}; "
            f"c10_warned := {warned} |}}")


def extra_checks(rng, tier, notes):
    """integrate == sum(data*metric) in any axis order; average of a constant is the constant;
    derivative == diff / metric at the result's position; metric_weighted relation."""
    import warnings
    import numpy as np
    import xarray as xr
    out = []
    n = 25 if tier == "quick" else 250
    for _ in range(n):
        case = {"history": [{"key": KEY[nm], "names": [nm], "overwrite": True}
                            for nm in ["dx_c", "dx_l", "dy_c", "dy_l", "dz_c", "a_cc"]], "adims": [], "axes": []}
        ds, g = build(case)
        with warnings.catch_warnings():
            warnings.simplefilter("ignore")
            da = xr.DataArray(np.array([[[rng.randint(-4, 9) for _ in range(3)] for _ in range(2)] for _ in range(2)],
                                       dtype=float), dims=["zc", "yc", "xc"])
            axes = rng.sample(["X", "Y", "Z"], rng.randint(1, 3))
            # the data may be held as integers, or lazily, chunked along dimensions that are not integrated
            how = rng.choice(["float", "float", "int", "lazy"])
            if how == "int":
                da = da.astype("int64")
            elif how == "lazy":
                keep = [d for d in da.dims if {"xc": "X", "yc": "Y", "zc": "Z"}[d] not in axes]
                if keep:
                    da = da.chunk({d: 1 for d in keep})
            rec = {"axes": axes, "da": da.values.tolist(), "held": how}
            try:
                a = g.integrate(da, axes)
                m = g.get_metric(da, axes)
                dims = [{"X": "xc", "Y": "yc", "Z": "zc"}[x] for x in axes]
                b = (da * m).sum(dims)
                c = g.integrate(da, list(reversed(axes)))
                if not (np.array_equal(a.values, b.values) and np.array_equal(a.values, c.transpose(*a.dims).values)):
                    out.append((rec, {"integrate": a.values.tolist(), "sum": b.values.tolist()},
                                f"integrate over {axes} differs from sum(data*metric) or depends on the axis order"))
                const = xr.full_like(da, 7.0)
                av = g.average(const, axes)
                if not np.allclose(av.values, 7.0, rtol=0, atol=1e-12):
                    out.append((rec, {"average": av.values.tolist()}, f"average of the constant 7 over {axes} is not 7"))
                ax1 = rng.choice(["X", "Y"])
                d = g.derivative(da, ax1, boundary="extend")
                df = g.diff(da, ax1, boundary="extend")
                if not np.array_equal(d.values, (df / g.get_metric(df, (ax1,))).values):
                    out.append((rec, {}, f"derivative along {ax1} differs from diff / metric at the result's position"))
                w = g.interp(da, ax1, boundary="extend", metric_weighted=ax1)
                ref = g.interp(da * g.get_metric(da, (ax1,)), ax1, boundary="extend")
                ref = ref / g.get_metric(ref, (ax1,))
                if not np.array_equal(w.values, ref.transpose(*w.dims).values):
                    out.append((rec, {}, f"metric_weighted interp along {ax1} differs from op(data*metric)/metric"))
            except Exception as e:
                out.append((rec, {"err": type(e).__name__ + ": " + str(e)[:200]}, "metric operation raised"))
    notes.append(f"integrate/average/derivative/metric_weighted relations checked on {n} random arrays")
    out.extend(weighted_forms(rng, tier, notes))
    out.extend(enumeration_tie(notes))
    out.extend(derivative_named_axes(rng, tier, notes))
    return out


def derivative_named_axes(rng, tier, notes):
    """derivative is diff divided by the metric OF THAT AXIS at the result's position, whatever the axes are
    called: several letters, one name a repetition or a prefix of another."""
    import warnings
    import numpy as np
    import xarray as xr
    from xgcm import Grid
    out = []
    n = 0
    for names in (("lon", "lat"), ("Z", "ZZ"), ("ZZ", "Z"), ("ab", "ba"), ("X", "XX"), ("X", "Y")):
        a1, a2 = names
        ds = xr.Dataset(coords={"xc": np.arange(4) + 0.5, "xl": np.arange(4.0), "yc": np.arange(3) + 0.5, "yl": np.arange(3.0)})
        ds["d1c"], ds["d1l"] = ("xc", np.array([1.0, 2.0, 4.0, 8.0])), ("xl", np.array([0.5, 1.5, 3.0, 6.0]))
        ds["d2c"], ds["d2l"] = ("yc", np.array([16.0, 32.0, 64.0])), ("yl", np.array([8.0, 24.0, 48.0]))
        g = Grid(ds, coords={a1: {"center": "xc", "left": "xl"}, a2: {"center": "yc", "left": "yl"}}, periodic=False,
                 metrics={(a1,): ["d1c", "d1l"], (a2,): ["d2c", "d2l"]}, autoparse_metadata=False)
        da = xr.DataArray(np.array([[rng.randint(-4, 9) for _ in range(4)] for _ in range(3)], dtype=float), dims=["yc", "xc"])
        for ax, mname in ((a1, "d1l"), (a2, "d2l")):
            n += 1
            rec = {"axes": list(names), "along": ax, "da": da.values.tolist()}
            try:
                with warnings.catch_warnings():
                    warnings.simplefilter("ignore")
                    d = g.derivative(da, ax, boundary="extend")
                    ref = g.diff(da, ax, boundary="extend") / ds[mname]
                ok = set(d.dims) == set(ref.dims) and np.array_equal(d.values, ref.transpose(*d.dims).values)
                obs = {} if ok else {"derivative": d.values.tolist(), "diff_over_metric": ref.transpose(*d.dims).values.tolist()}
            except Exception as e:
                ok, obs = False, {"err": f"{type(e).__name__}: {e}"[:200]}
            if not ok:
                out.append((rec, obs, f"derivative along {ax!r} on a grid with axes {names} is not diff divided by that axis' metric"))
    notes.append(f"{n} derivatives on grids whose axes have several-letter / nested names")
    return out


def enumeration_tie(notes):
    """metrics.iterate_axis_combinations against the model's axis_combinations, directly and
    exhaustively: every tuple of 1-4 distinct axis names drawn from four (64 inputs, every order)
    plus tuples with a repeated name; yields compared in order, blocks as sets."""
    from xgcm.metrics import iterate_axis_combinations
    pool = ["X", "Y", "Z", "T"]
    inputs = [list(p) for k in (1, 2, 3, 4) for p in itertools.permutations(pool, k)]
    inputs += [["X", "X"], ["X", "Y", "X"], ["Y", "X", "X", "Z"]]
    terms, recs = [], []
    for ax in inputs:
        try:
            ys = [[sorted(b) for b in y] for y in iterate_axis_combinations(tuple(ax))]
        except Exception as e:
            ys = [[["<raised " + type(e).__name__ + ">"]]]
        recs.append((ax, ys))
        terms.append("(" + cstrs(ax) + ", " + C.clist(C.clist(cstrs(b) for b in y) for y in ys) + ")")
    imports = IMPORTS
    sf, mf, af, errors = C.run_shards(ID, imports, "(list string * list (list (list string)))", "run10c", terms,
                                      shard_size=200, scope="nat_scope", tag="enum")
    out = []
    for e in errors:
        out.append(({"enumeration": "evaluator"}, {"err": e[:300]}, "the enumeration comparison did not evaluate"))
    for i in sorted(set(sf) | set(mf)):
        ax, ys = recs[i]
        out.append(({"axes": ax}, {"yielded": ys},
                    f"iterate_axis_combinations({ax}) enumerates differently from the model's axis_combinations"))
    notes.append(f"iterate_axis_combinations compared with the model on {len(inputs)} axis tuples (all orders of 1-4 of 4 names)")
    return out


def weighted_forms(rng, tier, notes):
    """metric_weighted in each of its documented spellings (str, tuple, per-axis mapping in any key
    order, also naming axes not operated on) over one or two axes: equal to doing, axis after axis,
    op(data * metric) / metric-at-the-result's-position with the metric named FOR THAT AXIS."""
    import warnings
    import numpy as np
    import xarray as xr
    out = []
    n = 40 if tier == "quick" else 400
    for _ in range(n):
        case = {"history": [{"key": KEY[nm], "names": [nm], "overwrite": True}
                            for nm in ["dx_c", "dx_l", "dy_c", "dy_l", "dz_c", "a_cc", "a_ll", "a_lc", "a_cl"]],
                "adims": [], "axes": []}
        ds, g = build(case)
        da = xr.DataArray(np.array([[[rng.randint(-4, 9) for _ in range(3)] for _ in range(2)] for _ in range(2)],
                                   dtype=float), dims=["zc", "yc", "xc"])
        op = rng.choice(["interp", "diff", "min", "max"])
        axes = rng.sample(["X", "Y"], rng.randint(1, 2))
        choice = lambda: rng.choice([("X",), ("Y",), ("X", "Y"), ("Y", "X")])
        form = rng.choice(["str", "tuple", "dict", "dict", "dict"])
        if form == "str":
            mw = rng.choice(["X", "Y"])
            per_axis = {a: (mw,) for a in axes}
        elif form == "tuple":
            mw = choice()
            per_axis = {a: mw for a in axes}
        else:
            keys = list(axes) + [a for a in ["X", "Y", "Z"] if a not in axes and rng.random() < 0.5]
            rng.shuffle(keys)
            mw = {k: choice() for k in keys}
            per_axis = {a: mw[a] for a in axes}
        rec = {"op": op, "axes": axes, "metric_weighted": repr(mw), "da": da.values.tolist()}
        try:
            with warnings.catch_warnings():
                warnings.simplefilter("ignore")
                got = getattr(g, op)(da, axes, boundary="extend", metric_weighted=mw)
                ref = da
                for a in axes:
                    ref = ref * g.get_metric(ref, per_axis[a])
                    ref = getattr(g, op)(ref, a, boundary="extend")
                    ref = ref / g.get_metric(ref, per_axis[a])
            ok = set(got.dims) == set(ref.dims) and np.array_equal(got.values, ref.transpose(*got.dims).values)
            obs = {"got": got.values.tolist(), "expected": ref.transpose(*got.dims).values.tolist()} if not ok else {}
        except Exception as e:
            ok, obs = False, {"err": type(e).__name__ + ": " + str(e)[:200]}
        if not ok:
            out.append((rec, obs, f"{op} over {axes} with metric_weighted={mw!r} is not op(data*metric)/metric "
                                  "with each axis' own metric"))
    notes.append(f"{n} metric_weighted calls in str / tuple / mapping spellings compared with the axis-by-axis definition")
    return out


def distribution(cases, obs):
    from collections import Counter
    c = Counter()
    for case, o in zip(cases, obs):
        c["naxes=" + str(len(case["axes"]) if isinstance(case["axes"], list) else 1)] += 1
        c["err:" + o["err"] if "err" in o else ("warned" if o["warned"] else "exact")] += 1
        if "cands" in o:
            c["ncands=" + str(len(o["cands"]))] += 1
    return dict(c)
