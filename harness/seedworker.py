"""Run under a given PYTHONHASHSEED: reads a JSON list of cases, prints one canonical JSON
result per case (used by the C12 check to compare fresh interpreters)."""
import json
import sys
import warnings

warnings.simplefilter("ignore")


def main():
    import numpy as np
    import xarray as xr
    from xgcm import Grid
    from harness.props import c05, c16
    cases = json.load(open(sys.argv[1]))
    out = []
    for case in cases:
        try:
            k = case["kind"]
            if k == "pad":
                r = c05.run_impl(case["case"])
                r.pop("order", None)
                out.append(r)
            elif k == "op":
                from harness.props import c01
                out.append(c01.run_impl(case["case"]))
            elif k == "equiv":
                from xgcm.grid_ufunc import _GridUFuncSignature as S
                a, b = S.from_string(case["a"]), S.from_string(case["b"])
                out.append({"ab": bool(a.equivalent(b)), "ba": bool(b.equivalent(a))})
            elif k == "parse":
                ds = build_dataset(case)
                g = Grid(ds, periodic=False)
                out.append({"axes": list(g.axes), "coords": {a: dict(g.axes[a].coords) for a in g.axes}})
            elif k == "metric":
                ds, coords, _ = c16.build({"calls": [], "ctor_n": 0})
                ds["dy_c"] = ("yc", np.array([7.0, 9.0]))
                ds["dz_c"] = ("zc", np.array([11.0, 13.0, 17.0]))
                ds = ds.assign_coords(zc=np.arange(3))
                coords["Z"] = {"center": "zc"}
                g = Grid(ds, coords=coords, periodic=False, metrics={tuple(k): v for k, v in case["metrics"]},
                         autoparse_metadata=False)
                da = xr.DataArray(np.ones((3, 2, 3)), dims=["zc", "yc", "xc"])
                m = g.get_metric(da, case["axes"])
                out.append({"dims": list(m.dims), "vals": [float(v) for v in m.transpose(*sorted(m.dims)).values.ravel()]})
            elif k == "ufunc":
                # a user's grid ufunc over several axes that reads the corner of its halo
                from xgcm.grid_ufunc import apply_as_grid_ufunc
                names = case["axes"]
                sz = {a: 3 + i for i, a in enumerate(names)}
                ds = xr.Dataset(coords={a.lower() + "c": np.arange(n) + 0.5 for a, n in sz.items()})
                g = Grid(ds, coords={a: {"center": a.lower() + "c"} for a in names}, periodic=False,
                         autoparse_metadata=False)
                dims = [a.lower() + "c" for a in names]
                da = xr.DataArray((np.arange(int(np.prod(list(sz.values())))) * 7 % 23 + 1.0).reshape(
                    [sz[a] for a in names]), dims=dims)
                dummies = case["dummies"]
                sig = "(" + ",".join(f"{d}:center" for d in dummies) + ")->(" + \
                    ",".join(f"{d}:center" for d in dummies) + ")"
                nd = len(names)

                def corner(a, nd=nd):
                    # the value at the low corner of each 3^nd window
                    return a[(Ellipsis,) + (slice(None, -2),) * nd]
                r = apply_as_grid_ufunc(corner, da, axis=[tuple(names)], grid=g, signature=sig,
                                        boundary_width={d: tuple(w) for d, w in case["bw"]},
                                        boundary=case["boundary"], fill_value=case["fill"], dask="forbidden")
                out.append({"dims": list(r.dims), "vals": [float(v) for v in r.values.ravel()]})
        except Exception as e:
            out.append({"err": type(e).__name__})
    json.dump(out, sys.stdout)


def build_dataset(case):
    import numpy as np
    import xarray as xr
    if case["convention"] == "comodo":
        ds = xr.Dataset()
        for name, n, axis, shift in case["dims"]:
            attrs = {"axis": axis}
            if shift is not None:
                attrs["c_grid_axis_shift"] = shift
            ds = ds.assign_coords({name: xr.DataArray(np.arange(n, dtype=float), dims=[name], attrs=attrs)})
        return ds
    ds = xr.Dataset(attrs={"Conventions": "SGRID-0.3"})
    sizes = dict(case["sizes"])
    for d, n in sizes.items():
        ds = ds.assign_coords({d: np.arange(n)})
    ds["grid"] = xr.DataArray(0, attrs=case["grid_attrs"])
    return ds


if __name__ == "__main__":
    main()
