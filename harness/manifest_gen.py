"""Writes MANIFEST.json from the per-property modules (python -m harness.manifest_gen)."""
import importlib, json, subprocess
from pathlib import Path
ROOT = Path(__file__).resolve().parent.parent
CLAIMED = json.loads((ROOT / "harness" / "claimed.json").read_text())
props = {json.loads(l)["id"]: json.loads(l) for l in open(ROOT / "properties.jsonl")}
checks = []
for pid, info in CLAIMED["claimed"].items():
    checks.append({
        "property_id": pid,
        "quick_cmd": f"./check {pid} --tier quick",
        "thorough_cmd": f"./check {pid} --tier thorough",
        "evidence_file": f"evidence/{pid}.json",
        "replay_cmd_template": f"./check {pid} --replay {{path}}",
        "engine": "rocq-model+correspondence",
        "level_claimed": {"category": "proof", "text": info["text"], "design_ref": info.get("design_ref", "DESIGN.md section 5")},
        "level_note": info["note"],
        "technique": info["technique"],
    })
na = [{"property_id": pid, "reason": r} for pid, r in CLAIMED["not_applicable"].items()]
for pid in props:
    assert pid in CLAIMED["claimed"] or pid in CLAIMED["not_applicable"], pid
m = {
    "version": 1,
    "setup_cmd": "./check --setup",
    "hooks": {"guard": "XGCM_VERIF_HOOKS", "enable": "no source hooks are needed: every observable is reachable from the public API; checks import /repo directly with PYTHONPATH=/repo",
              "baseline_off_cmd": "cd /repo && /venv/bin/python -m pytest -ra -q -p no:cacheprovider --timeout=900 --continue-on-collection-errors -n 16",
              "source_commits": [], "add_only": True},
    "engines": [{"name": "rocq-model+correspondence", "path": "coq/ harness/ translator/",
                 "serves_properties": sorted(CLAIMED["claimed"]),
                 "kind_free_text": "Machine-checked proof in Coq 8.16.1 of each property over an executable Gallina model of xgcm; the model is tied to /repo on every run by (a) a fail-closed Python-ast translator regenerating tables/kernels with tie lemmas and (b) a correspondence check that runs the model (vm_compute) and the implementation on the same generated inputs."}],
    "checks": checks,
    "notes": CLAIMED.get("notes", ""),
    "not_applicable": na,
}
(ROOT / "MANIFEST.json").write_text(json.dumps(m, indent=1) + "\n")
print("MANIFEST.json:", len(checks), "claimed,", len(na), "not claimed")
