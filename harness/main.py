"""./check driver: regenerate -> build -> correspondence -> verdict -> evidence."""
from __future__ import annotations

import argparse
import importlib
import json
import multiprocessing as mp
import os
import random
import re
import sys
import time
import traceback

from . import common as C

ALL = [f"C{i:02d}" for i in range(1, 21)]


def setup():
    t0 = time.time()
    with C.Lock():
        from translator import gen
        gen.regenerate()
        C.coq_project()
        ok, log = C.make(["-k", "all"], timeout=3000)
    print(log[-3000:])
    print(f"setup: build {'OK' if ok else 'INCOMPLETE'} in {time.time()-t0:.0f}s")
    if not ok:
        # A proof or tie that does not check against the current /repo is a finding of the
        # property's own check (which rebuilds what it needs and reports it with a replay),
        # not a reason to stop before any check has run.
        print("setup: some targets did not build; the per-property checks will report them")
    return 0


def _impl_worker(args):
    modname, case = args
    mod = importlib.import_module(modname)
    try:
        return mod.run_impl(case)
    except BaseException as e:  # the runner itself failed: report, never hide
        return {"harness_error": f"{type(e).__name__}: {e}", "tb": traceback.format_exc()[-1500:]}


def run_impl_all(mod, cases):
    if os.environ.get("VERIF_SERIAL"):
        return [_impl_worker((mod.__name__, c)) for c in cases]
    with mp.get_context("fork").Pool(min(C.NPROC, max(1, len(cases) // 8 + 1))) as pool:
        return pool.map(_impl_worker, [(mod.__name__, c) for c in cases], chunksize=8)


def theorem_names(vfile):
    src = C.strip_coq_comments((C.COQ / vfile).read_text())
    return re.findall(r"^\s*(?:Theorem|Lemma)\s+([\w']+)", src, re.M)


def first_error(log):
    m = re.search(r'File "\./([^"]+)", line (\d+)[^\n]*\n(Error:.*?)(?:\n\S|\Z)', log, re.S)
    if m:
        return f"{m.group(1)}:{m.group(2)}: {m.group(3)[:600]}"
    m = re.search(r"\*\*\* \[([^\]]+)\]", log)
    return m.group(0) if m else log[-800:]


def check(prop, tier, seed, replay=None):
    t0 = time.time()
    mod = importlib.import_module(f"harness.props.{prop.lower()}")
    rng = random.Random(seed * 1000003 + int(prop[1:]))
    notes = []
    violations = []   # dicts: {what, replay, nofail}
    known_hits = []

    # 1-2. regenerate + build -------------------------------------------------
    with C.Lock():
        from translator import gen
        gen_status = gen.regenerate()
        C.coq_project()
        eval_ok, eval_log = C.make(mod.EVAL_TARGETS)
        proof_ok, proof_log = C.make(mod.PROOF_TARGETS)
    if not eval_ok:
        # the evaluator itself does not build: the machinery is broken, not the code
        print(eval_log[-3000:])
        print(f"ERROR: evaluator for {prop} does not build")
        rp = C.write_replay(prop, {"kind": "evaluator-build-failure", "log": eval_log[-3000:]})
        print(f"VIOLATION property={prop} replay={rp} no-failing-input-found")
        return 1

    # 3. audit ----------------------------------------------------------------
    bad = C.audit_sources()
    thms = theorem_names(mod.PROPERTY_FILE)
    ties = getattr(mod, "TIE_LEMMAS", [])
    obligations = len(thms) + len(ties) + 1
    discharged = 0
    axioms_seen = []
    if proof_ok:
        ok_pa, blocks, pa_out = C.print_assumptions(mod.PROPERTY_FILE)
        axioms_seen = sorted({a for b in blocks for a in b})
        illegal = [a for a in axioms_seen if a not in C.ALLOWED_AXIOMS]
        if not ok_pa or len(blocks) < len(thms):
            notes.append(f"Print Assumptions: {len(blocks)} blocks for {len(thms)} theorems")
            proof_ok = False
            proof_log = pa_out
        elif illegal:
            bad.append("axioms outside the allow-list: " + ", ".join(illegal))
        else:
            discharged = len(thms) + len(ties)
    if proof_ok and tier == "thorough":
        # independent checker over the compiled property file and all it depends on
        ck_ok, ck_axioms, ck_out = C.coqchk(mod.PROPERTY_FILE)
        short = sorted({a.replace("Coq.Logic.", "").replace("Coq.Reals.", "") for a in ck_axioms})
        notes.append(f"coqchk -o: {'accepted' if ck_ok else 'REJECTED'}; axioms of all loaded libraries: {short or 'none'}")
        if not ck_ok:
            proof_ok = False
            proof_log = "coqchk: " + ck_out
        else:
            illegal = [a for a in short if a not in C.ALLOWED_AXIOMS]
            if illegal:
                bad.append("coqchk reports axioms outside the allow-list: " + ", ".join(illegal))
    if not bad:
        discharged += 1 if proof_ok else 0

    # 4. correspondence -------------------------------------------------------
    cases = mod.generate(rng, tier) if replay is None else [json.load(open(replay))["case"]]
    obs = run_impl_all(mod, cases)
    herr = [o for o in obs if isinstance(o, dict) and "harness_error" in o]
    if herr:
        print("HARNESS ERROR (implementation runner):", herr[0]["harness_error"])
        print(herr[0].get("tb", ""))
    if herr:
        # keep going with the cases the runner did handle; the failure itself is reported below
        keep = [i for i, o in enumerate(obs) if not (isinstance(o, dict) and "harness_error" in o)]
        cases = [cases[i] for i in keep]
        obs = [obs[i] for i in keep]
    terms = [mod.coq_case(c, o) for c, o in zip(cases, obs)]
    spec_fail, model_fail, aux_fail, errors = C.run_shards(
        prop, mod.IMPORTS, mod.CASE_TYPE, mod.RUN_FN, terms,
        shard_size=getattr(mod, "SHARD", 300), scope=getattr(mod, "SCOPE", "Z_scope"))
    for e in errors:
        print("SHARD ERROR:", e[:1500])

    extra = []
    if hasattr(mod, "extra_checks") and replay is None:
        extra = mod.extra_checks(rng, tier, notes)   # list of (case, obs, description)

    # 5. verdict --------------------------------------------------------------
    known = C.load_known()
    kmap = {f["key"]: f for f in known.get("findings", []) if f.get("property") == prop}

    def report_failure(case, o, what):
        key = mod.finding_key(case, o) if hasattr(mod, "finding_key") else None
        if key is not None and key in kmap:
            known_hits.append(key)
            return
        rp = C.write_replay(prop, {
            "property": prop, "case": case, "impl": o, "what": what, "seed": seed,
            "replay_cmd": f"./check {prop} --replay <this file>"})
        violations.append({"what": what, "replay": rp, "nofail": False})

    # smallest failing inputs first (a cheap shrink); known findings are matched for all
    # of them, at most 3 unlisted ones are written out as replays
    spec_sorted = sorted(spec_fail, key=lambda i: len(json.dumps(cases[i], default=str)))
    n_new = 0
    for i in spec_sorted:
        key = mod.finding_key(cases[i], obs[i]) if hasattr(mod, "finding_key") else None
        if key is not None and key in kmap:
            known_hits.append(key)
            continue
        n_new += 1
        if n_new <= 3:
            report_failure(cases[i], obs[i], "implementation differs from the specification oracle: "
                           + mod.describe(cases[i], obs[i]))
    if n_new > 3:
        notes.append(f"{n_new} failing inputs not listed as known findings; the 3 smallest are reported")
    for (case, o, what) in extra[:3]:
        report_failure(case, o, what)
    if len(extra) > 3:
        notes.append(f"{len(extra)} failures from the implementation-level checks; 3 reported")
    only_model = [i for i in model_fail if i not in set(spec_fail)]
    if [v for v in violations if not v["nofail"]]:
        only_model = []      # concrete failing inputs were already found
    for i in only_model[:5]:
        key = mod.finding_key(cases[i], obs[i]) if hasattr(mod, "finding_key") else None
        if key is not None and key in kmap:
            known_hits.append(key)
            continue
        rp = C.write_replay(prop, {
            "property": prop, "case": cases[i], "impl": obs[i],
            "what": f"correspondence Corr/Eval_{prop} no longer holds (model != implementation "
                    "on a constrained observable) but the specification oracle agrees with the "
                    "implementation on this input: " + mod.describe(cases[i], obs[i])})
        violations.append({"what": "correspondence broke", "replay": rp, "nofail": True})
    if errors or herr:
        rp = C.write_replay(prop, {"property": prop, "what": "cases shard or runner failed",
                                   "errors": errors[:3], "runner": herr[:1]})
        violations.append({"what": "shard/runner failure", "replay": rp, "nofail": True})
    if not proof_ok:
        fe = first_error(proof_log)
        print("PROOF BUILD FAILED:", fe)
        if not [v for v in violations if not v["nofail"]]:
            rp = C.write_replay(prop, {
                "property": prop, "what": "proof obligation no longer checks",
                "failing_obligation": fe, "generated_status": gen_status,
                "searched": f"{len(cases)} implementation-vs-specification cases, none failing"})
            violations.append({"what": "proof broke: " + fe[:200], "replay": rp, "nofail": True})
    if bad:
        rp = C.write_replay(prop, {"property": prop, "what": "source audit failed", "items": bad})
        violations.append({"what": "audit: " + "; ".join(bad)[:300], "replay": rp, "nofail": True})

    for key in sorted(set(known_hits)):
        print(f"KNOWN-FINDING: property={prop} {kmap[key]['what']}")
    seen = set()
    for v in violations:
        if v["replay"] in seen:
            continue
        seen.add(v["replay"])
        tail = " no-failing-input-found" if v["nofail"] else ""
        print(f"VIOLATION property={prop} replay={v['replay']}{tail}")
        print("  ", v["what"][:400])

    # 6. evidence -------------------------------------------------------------
    keys = set()
    nontriv = 0
    for c, o in zip(cases, obs):
        h = C.case_hash(c)
        if h in keys:
            continue
        keys.add(h)
        if mod.nontrivial(c, o):
            nontriv += 1
    dist = mod.distribution(cases, obs) if hasattr(mod, "distribution") else {}
    coverage = {
        "obligations": obligations,
        "discharged": discharged,
        "checker_cmd": f"make -C coq {' '.join(mod.PROOF_TARGETS)} (coqc 8.16.1, full .vo) ; coqc {mod.PROPERTY_FILE} (Print Assumptions)",
        "trusted_base": C.TRUSTED_BASE + getattr(mod, "TRUSTED_EXTRA", []),
        "theorems": thms,
        "tie_lemmas": ties,
        "axioms_reported": axioms_seen,
        "generated_status": gen_status,
        "evaluations": len(cases),
        "distinct_nontrivial": nontriv,
        "rule": mod.RULE,
        "samples": [{"case": c, "impl": o} for c, o in list(zip(cases, obs))[:: max(1, len(cases) // 4)][:4]],
        "traces_validated_against_impl": len(cases) - len(model_fail),
        "spec_disagreements": len(spec_fail),
        "model_disagreements": len(model_fail),
        "fidelity_notes": {"auxiliary_disagreements": len(aux_fail),
                           "examples": [mod.describe(cases[i], obs[i]) for i in aux_fail[:3]]},
        "known_findings_reproduced": sorted(set(known_hits)),
        "input_distribution": dist,
        "exhaustive": bool(getattr(mod, "EXHAUSTIVE", {}).get(tier, False)),
        "notes": notes,
    }
    if replay is None:
        C.write_evidence(prop, tier, seed, coverage, time.time() - t0, len(seen),
                         assumptions=getattr(mod, "ASSUMPTIONS", []))
    print(f"{prop} {tier}: {len(cases)} cases, {nontriv} distinct non-trivial, "
          f"{len(spec_fail)} spec / {len(model_fail)} model / {len(aux_fail)} aux disagreements, "
          f"proofs {'OK' if proof_ok else 'BROKEN'} ({discharged}/{obligations}), "
          f"{time.time()-t0:.0f}s")
    return 1 if seen else 0


def main():
    ap = argparse.ArgumentParser()
    ap.add_argument("prop", nargs="?")
    ap.add_argument("--setup", action="store_true")
    ap.add_argument("--tier", default=os.environ.get("VERIF_TIER", "quick"))
    ap.add_argument("--replay")
    a = ap.parse_args()
    if a.setup:
        sys.exit(setup())
    seed = int(os.environ.get("VERIF_SEED", "0"))
    sys.exit(check(a.prop, a.tier, seed, a.replay))


if __name__ == "__main__":
    main()
