"""Shared machinery of the check: Coq literal printing, building, cases shards,
verdict, evidence.  See DESIGN.md sections 2.3 and 3."""
from __future__ import annotations

import fcntl
import hashlib
import json
import os
import re
import subprocess
import sys
import time
from fractions import Fraction
from pathlib import Path

ROOT = Path(__file__).resolve().parent.parent
COQ = ROOT / "coq"
BUILD = ROOT / "build"
EVIDENCE = ROOT / "evidence"
REPLAYS = ROOT / "replays"
REPO = Path("/repo")
NPROC = int(os.environ.get("VERIF_NPROC", "16"))

TRUSTED_BASE = [
    "Coq 8.16.1 kernel (coqc) including its vm_compute machine; native_compute unused",
    "axioms: only those listed per theorem by Print Assumptions (allow-list: the stdlib real-number axioms and functional_extensionality_dep for theorems over R; none elsewhere)",
    "translator/gen.py (fail-closed Python-ast extractors rendering /repo fragments into coq/Generated)",
    "correspondence harness: generators, Python->Gallina literal printer, comparer; finite sampling of the hand-written plumbing",
    "no extraction: no Extract Constant / Extract Inductive directives",
    "xarray/numpy/dask primitives are modelled (Base/Tensor.v, Model/*), validated only by the correspondence check",
]

ALLOWED_AXIOMS = {
    "ClassicalDedekindReals.sig_forall_dec",
    "ClassicalDedekindReals.sig_not_dec",
    "FunctionalExtensionality.functional_extensionality_dep",
    "Classical_Prop.classic",
}

# ----------------------------------------------------------------------------
# Gallina literal printing


def cstr(s: str) -> str:
    assert all(32 <= ord(ch) < 127 for ch in s), s
    return '"' + s.replace('"', '""') + '"'


def cZ(n: int) -> str:
    n = int(n)
    return f"({n})" if n < 0 else str(n)


def cnat(n: int) -> str:
    assert 0 <= n < 5000
    return f"{int(n)}%nat"


def cbool(b) -> str:
    return "true" if b else "false"


def clist(items) -> str:
    return "[" + "; ".join(items) + "]"


def copt(x, f=lambda v: v) -> str:
    return "None" if x is None else f"(Some {f(x)})"


def cpair(a: str, b: str) -> str:
    return f"({a}, {b})"


def cQ(x) -> str:
    fr = Fraction(x)
    return f"({fr.numerator} # {fr.denominator})"


EKINDS = {
    "KeyError": "KeyError",
    "ValueError": "ValueError",
    "TypeError": "TypeError",
    "NotImplementedError": "NotImplementedError",
    "IndexError": "IndexError",
    "AttributeError": "AttributeError",
    "RuntimeError": "RuntimeError",
}


def cekind(name: str) -> str:
    return EKINDS.get(name, "OtherError")


# ----------------------------------------------------------------------------
# Building


def sh(cmd, timeout=None, cwd=None, env=None):
    p = subprocess.run(
        cmd, shell=isinstance(cmd, str), cwd=cwd, env=env, timeout=timeout,
        stdout=subprocess.PIPE, stderr=subprocess.STDOUT, text=True,
    )
    return p.returncode, p.stdout


class Lock:
    def __init__(self, name="build"):
        BUILD.mkdir(exist_ok=True)
        self.path = BUILD / f".{name}.lock"

    def __enter__(self):
        self.f = open(self.path, "w")
        fcntl.flock(self.f, fcntl.LOCK_EX)
        return self

    def __exit__(self, *a):
        fcntl.flock(self.f, fcntl.LOCK_UN)
        self.f.close()


def write_if_changed(path: Path, text: str) -> bool:
    if path.exists() and path.read_text() == text:
        return False
    path.parent.mkdir(parents=True, exist_ok=True)
    path.write_text(text)
    return True


def coq_project():
    """(Re)write _CoqProject and the Makefile when the file list changed."""
    files = sorted(
        str(p.relative_to(COQ)) for p in COQ.rglob("*.v")
        if "/." not in str(p)
    )
    text = "-Q . XV\n" + "\n".join(files) + "\n"
    changed = write_if_changed(COQ / "_CoqProject", text)
    if changed or not (COQ / "Makefile").exists():
        rc, out = sh("coq_makefile -f _CoqProject -o Makefile", cwd=COQ, timeout=120)
        if rc != 0:
            raise RuntimeError("coq_makefile failed:\n" + out)


def make(targets, timeout=1500):
    """Full .vo build of the given targets (never -vos). Returns (ok, log)."""
    rc, out = sh(
        ["timeout", str(timeout), "make", "-j", str(NPROC), "-k"] + list(targets),
        cwd=COQ, timeout=timeout + 30,
    )
    return rc == 0, out


def coqchk(vfile: str, timeout=1500):
    """Independent re-check of the compiled property file and everything it depends on (coqchk), with the
    axioms of every loaded library.  Returns (ok, axioms, tail of the output)."""
    mod = "XV." + vfile[:-2].replace("/", ".")
    rc, out = sh(["timeout", str(timeout), "coqchk", "-silent", "-o", "-Q", ".", "XV", mod], cwd=COQ,
                 timeout=timeout + 30)
    axioms = []
    m = re.search(r"\* Axioms:(.*?)\n\s*\n", out, re.S)
    if m:
        axioms = [a.strip() for a in m.group(1).splitlines() if a.strip() and a.strip() != "<none>"]
    return rc == 0, axioms, out[-600:]


def print_assumptions(vfile: str):
    """Re-run coqc on a Properties file and parse every Print Assumptions block.
    Returns (ok, list of (theorem?, axioms list)), raw output."""
    rc, out = sh(["timeout", "600", "coqc", "-Q", ".", "XV", vfile], cwd=COQ, timeout=630)
    blocks = []
    cur = None
    for line in out.splitlines():
        if line.startswith("Closed under the global context"):
            blocks.append([])
            cur = None
        elif line.startswith("Axioms:"):
            cur = []
            blocks.append(cur)
        elif cur is not None:
            m = re.match(r"^([A-Za-z_][\w.']*)\s*(:.*)?$", line)
            if m and not line.startswith(" "):
                cur.append(m.group(1))
    return rc == 0, blocks, out


FORBIDDEN = re.compile(
    r"\b(Admitted|admit|Axiom|Axioms|Parameter|Parameters|Conjecture|Abort All|"
    r"Unset Guard Checking|Unset Positivity Checking|Unset Universe Checking|bypass_check|"
    r"Admit Obligations|type-in-type|impredicative-set)\b"
)


def strip_coq_comments(src: str) -> str:
    out = []
    depth = 0
    i = 0
    while i < len(src):
        if src.startswith("(*", i):
            depth += 1
            i += 2
        elif src.startswith("*)", i) and depth:
            depth -= 1
            i += 2
        else:
            if depth == 0:
                out.append(src[i])
            i += 1
    return "".join(out)


def audit_sources():
    """grep for forbidden vernacular in every .v (comments stripped).
    `Variable`/`Hypothesis` must only occur inside Sections: checked by a simple
    section-depth scan."""
    bad = []
    for p in sorted(COQ.rglob("*.v")):
        src = strip_coq_comments(p.read_text())
        # string literals may contain anything
        src_nostr = re.sub(r'"(?:[^"]|"")*"', '""', src)
        for m in FORBIDDEN.finditer(src_nostr):
            bad.append(f"{p.relative_to(COQ)}: {m.group(0)}")
        depth = 0
        for sent in re.split(r"\.\s", src_nostr):
            s = sent.strip()
            if re.match(r"^Section\b", s):
                depth += 1
            elif re.match(r"^End\b", s) and depth:
                depth -= 1
            elif re.match(r"^(Variable|Variables|Hypothesis|Hypotheses|Context)\b", s) and depth == 0:
                bad.append(f"{p.relative_to(COQ)}: {s.split()[0]} outside a Section")
    return bad


# ----------------------------------------------------------------------------
# Cases shards


def _parse_lists(out: str):
    """Parse the `= ([..], [..], [..])` printed by Eval vm_compute."""
    m = re.search(r"=\s*(\(.*?\))\s*:\s*list nat", out, re.S)
    if not m:
        return None
    txt = re.sub(r"\s+", "", m.group(1))
    txt = txt.replace("%nat", "")
    lists = re.findall(r"\[([0-9;]*)\]", txt)
    return [[int(x) for x in l.split(";") if x] for l in lists]


def run_shards(prop: str, imports: str, case_type: str, run_fn: str, case_terms,
               shard_size=300, scope="Z_scope", timeout=900, tag="cases"):
    """Write build/<prop>/<tag>_NNN.v, compile them in parallel and collect the
    indices of failing cases.  Returns (spec_fail, model_fail, aux_fail, errors)."""
    d = BUILD / prop
    d.mkdir(parents=True, exist_ok=True)
    for old in d.glob(f"{tag}_*"):
        old.unlink()
    shards = [case_terms[i:i + shard_size] for i in range(0, len(case_terms), shard_size)]
    procs = []
    for k, sh_cases in enumerate(shards):
        f = d / f"{tag}_{k:03d}.v"
        body = [imports, "Import ListNotations.", f"Open Scope {scope}.", "Open Scope string_scope.",
                f"Open Scope {scope}.",
                f"Definition cases : list {case_type} := ["]
        body.append(";\n".join(sh_cases))
        body.append("].")
        body.append(f"Eval vm_compute in ({run_fn} cases).")
        f.write_text("\n".join(body) + "\n")
    results = [None] * len(shards)
    errors = []
    running = []
    idx = 0

    def launch(k):
        f = d / f"{tag}_{k:03d}.v"
        return subprocess.Popen(
            ["timeout", str(timeout), "coqc", "-Q", str(COQ), "XV", str(f)],
            stdout=subprocess.PIPE, stderr=subprocess.STDOUT, text=True, cwd=d)

    pending = list(range(len(shards)))
    while pending or running:
        while pending and len(running) < NPROC:
            k = pending.pop(0)
            running.append((k, launch(k)))
        k, p = running.pop(0)
        out, _ = p.communicate()
        lists = _parse_lists(out) if p.returncode == 0 else None
        if lists is None or len(lists) != 3:
            errors.append(f"shard {k}: coqc rc={p.returncode}: {out[-2000:]}")
            results[k] = ([], [], [])
        else:
            results[k] = tuple(lists)
    spec_fail, model_fail, aux_fail = [], [], []
    for k, (a, b, c) in enumerate(results):
        off = k * shard_size
        spec_fail += [off + i for i in a]
        model_fail += [off + i for i in b]
        aux_fail += [off + i for i in c]
    return spec_fail, model_fail, aux_fail, errors


def eval_terms(prop: str, imports: str, terms, scope="Z_scope", tag="eval", timeout=600):
    """Evaluate arbitrary closed terms with vm_compute; returns raw output per term."""
    d = BUILD / prop
    d.mkdir(parents=True, exist_ok=True)
    f = d / f"{tag}.v"
    body = [imports, "Import ListNotations.", f"Open Scope {scope}.", "Open Scope string_scope.",
            f"Open Scope {scope}."]
    for i, t in enumerate(terms):
        body.append(f'Definition t{i} := {t}.')
        body.append(f"Eval vm_compute in t{i}.")
    f.write_text("\n".join(body) + "\n")
    rc, out = sh(["timeout", str(timeout), "coqc", "-Q", str(COQ), "XV", str(f)], cwd=d,
                 timeout=timeout + 30)
    return rc, out


# ----------------------------------------------------------------------------
# Known findings, replays, evidence


def load_known():
    p = ROOT / "known_findings.json"
    if not p.exists():
        return {"findings": [], "fixed": []}
    return json.loads(p.read_text())


def case_hash(case) -> str:
    return hashlib.sha256(json.dumps(case, sort_keys=True, default=str).encode()).hexdigest()[:16]


def write_replay(prop: str, payload: dict) -> str:
    d = REPLAYS / prop
    d.mkdir(parents=True, exist_ok=True)
    h = case_hash(payload)
    p = d / f"{h}.json"
    p.write_text(json.dumps(payload, indent=1, sort_keys=True, default=str))
    return str(p.relative_to(ROOT))


def write_evidence(prop: str, tier: str, seed: int, coverage: dict, wall: float,
                   violations: int, assumptions=None):
    EVIDENCE.mkdir(exist_ok=True)
    ev = {
        "property_id": prop,
        "tier": tier,
        "seed": int(seed),
        "level": "proof",
        "coverage": coverage,
        "assumptions": assumptions or [],
        "wall_s": round(wall, 2),
        "violations": int(violations),
    }
    (EVIDENCE / f"{prop}.json").write_text(json.dumps(ev, indent=1, default=str) + "\n")
