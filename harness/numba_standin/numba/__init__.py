"""Pure-Python stand-in for the parts of numba that xgcm/transform.py uses
(numba itself is not installed in this sandbox).  `guvectorize` runs the decorated
function, unmodified and uncompiled, over the broadcast loop dimensions with NumPy
generalized-ufunc calling conventions: inputs with their core dimensions last, scalars for
`()` core signatures, and a preallocated output view the kernel writes into."""
import re

import numpy as np

__version__ = "0.0-standin"


class _T:
    def __init__(self, name):
        self.name = name

    def __getitem__(self, item):
        return self


boolean = _T("boolean")
float32 = _T("float32")
float64 = _T("float64")
int64 = _T("int64")


def _parse(sig):
    ins, outs = sig.replace(" ", "").split("->")
    f = lambda s: [tuple(x for x in g.split(",") if x) for g in re.findall(r"\(([^)]*)\)", s)]
    return f(ins), f(outs)


def guvectorize(ftylist, signature, **kwargs):
    ins, outs = _parse(signature)
    assert len(outs) == 1

    def deco(fn):
        def wrapper(*args):
            args = [np.asarray(a) for a in args]
            assert len(args) == len(ins)
            sizes = {}
            loops = []
            for a, c in zip(args, ins):
                nc = len(c)
                assert a.ndim >= nc, "too few dimensions for core signature"
                for name, s in zip(c, a.shape[a.ndim - nc:]):
                    if sizes.setdefault(name, s) != s:
                        raise ValueError(f"core dimension {name} mismatch")
                loops.append(a.shape[: a.ndim - nc])
            loop_shape = np.broadcast_shapes(*loops)
            dtype = np.result_type(*[a for a, c in zip(args, ins) if len(c) > 0]) if any(
                len(c) for c in ins) else float
            if dtype.kind != "f":
                dtype = np.dtype(float)
            out = np.empty(loop_shape + tuple(sizes[n] for n in outs[0]), dtype=dtype)
            bargs = [np.broadcast_to(a, loop_shape + a.shape[a.ndim - len(c):]) for a, c in zip(args, ins)]
            for idx in np.ndindex(*loop_shape):
                call = []
                for b, c in zip(bargs, ins):
                    v = b[idx]
                    call.append(v[()] if len(c) == 0 else np.array(v, dtype=dtype if v.dtype.kind == "f" else v.dtype))
                fn(*call, out[idx])
            return out
        wrapper.__name__ = fn.__name__
        wrapper.__wrapped__ = fn
        return wrapper
    return deco
